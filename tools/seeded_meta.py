#!/usr/bin/env python3
# seeded_meta.py <name> <demo placement + command> <caught_by text> : completes /verif/seeded/<name>/meta.json after intake.
import json, sys
name, demo, caught = sys.argv[1], sys.argv[2], sys.argv[3]
p = f'/verif/seeded/{name}/meta.json'
d = json.load(open(p))
d['confirmed_by_me'] = 'in a fresh scratch worktree of /repo HEAD: go build ./... ok, go vet ./glow ok, pinned suite (go test -vet=off -count=1 ./glow) passes with the change, demo passes without and fails with the change'
d['demo_placement_and_command'] = demo
d['checks_run_against_it'] = 'tools/run_seeded.sh <name> <prop>'
d['caught_by'] = [caught]
json.dump(d, open(p, 'w'), indent=1)
