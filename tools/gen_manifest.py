#!/usr/bin/env python3
"""Regenerates /verif/MANIFEST.json from the table below (kept in one place so
that MANIFEST.json is always valid and consistent with what is built)."""
import json, os, subprocess

HERE = os.path.dirname(os.path.dirname(os.path.abspath(__file__)))

def hook_commits():
    try:
        out = subprocess.check_output(["git", "-C", "/repo", "log", "--format=%H %s"], text=True)
    except Exception:
        return []
    return [l.split()[0] for l in out.splitlines() if " verif hooks:" in " " + l]

TECH = "deterministic simulation with fault injection: real code in a testing/synctest bubble under a seeded yield-point scheduler, simulated clock/network, fault injection; seeded search with tape minimisation and exact replay"

# id -> (level, design section, text, note)
CLAIMED = {
 "C02": ("exploration", "5.2", "Seeded histories of valid reports (replays, re-signed variants, capacity-boundary and negative-encoded values) through a duplicating/reordering/dropping UDP fabric into the real server; per (device,slot) reference machine compared on the whole snapshot after every delivery, through stats/sync surfaces, and across a second delivery order; thorough adds exhaustive sequences up to length 4 over a 12-symbol alphabet. Sampling, not proof.",
         "Trusts go-ethereum secp256k1, testing/synctest, the harness reference model; UDP socket loop is a stub; capacities over the whole 64 bit range (the overflow of capacity x 135 was a defect found here and repaired, known_findings.json)."),
}

CLAIMED.update({
 "C01": ("exploration", "5.1", "The network as adversary: valid reports mutated (bit flips, field swaps, re-signing under every other key, prefix tampering, boundary timeslots, sentinel powers, truncation, extension, random bytes, replays) against (now, offset) configurations reached by clock jumps, real rotations, a stalled rotation thread and restarts; full snapshot and report log compared before/after every delivery, acceptance decided by an independent predicate. Sampling, not proof.",
         "Trusts go-ethereum secp256k1, synctest, the harness predicate; the kernel-facing UDP loop is modelled (leading 80 bytes of datagrams >= 80 bytes)."),
 "C03": ("exploration", "5.3", "Generated histories of reports, bans, clock advances of any size, simulated time with the real rotation and impact loops, restarts with catch-up, statistics GETs for every kind of offset with and without insert_false_negatives. Every rotation is observed inside migrateReports (under the lock) and checked slot by slot; served, in-memory and on-disk archived weeks are compared bit for bit with the first archived form and verified under the server key with an independent encoder.",
         "Trusts the harness model and encoder; WattTime values come from the repo's own test-mode stub."),
 "C04": ("exploration", "5.4", "Generated histories with a graceful restart after seeded prefixes (thorough: after every operation of short histories), 1-3 restarts in a row, clocks requiring 0/1/several catch-up rotations; snapshot before == after on the listed fields, model agreement, idempotence, start-up rotation rule.",
         "Graceful Close()/NewGCAServer only (crashes are C05); server list, migrations and live impact rates are excluded as the property says."),
 "C06": ("exploration", "5.6", "Generated authorization sequences through the real JSON endpoint (new, duplicate, single-field conflicts incl. key reuse, foreign/invalid signatures, banned ids, arbitrary finite float64 coordinates) interleaved with reports, rotations, restarts; equipment/ban reference model compared on snapshot, equipment list (bit exact), recent reports by key, sync by id, live statistics, plus the server's own CheckInvariants after every step. Half of the runs have a second real server (the two list each other): what srv0 accepts reaches the peer as a forwarded copy, the identical authorization is submitted to the peer first hand, and the peer's equipment list is compared with its own model, also after its restart.",
         "Fresh ids always carry fresh keys; coordinates whose sum overflows float64 are excluded because the repo's test-mode WattTime stub derives the impact rate from that sum."),
 "C07": ("exploration", "5.7", "1-4 batches of 2-8 concurrent registration request tasks (valid for three candidate keys, wrong signers, altered key, replays) released in seeded orders, with restarts in between, and equipment / server / migration authority attempts signed by the temp key, the server key, losing candidates and the winner before and after registration; compared with the sequential rules in execution order.",
         "The deterministic part orders whole requests (one critical section each); a second, auxiliary part fires 4-24 valid registrations for distinct keys on real parallel goroutines in a -race binary and requires exactly one success with memory, file and restart agreeing (sound, sampled, not exactly replayable) - a check-then-act gap introduced inside the registration has no yield site and is only visible there."),
})

CLAIMED.update({
 "C05": ("fault_enumeration", "5.5", "Crash = disk fork under the process-crash model: for each generated history (first start with self-generated keys, registration, authorizations incl. conflicts, reports, rotations incl. start-up catch-up) the data directory is copied at every observation point before/after each persistence write, between create and write of server.keys, at every boundary between operations, plus the present-but-empty states of server.keys and gcaPubKey.dat; every fork is booted twice as a fresh incarnation and must start, equal the model after exactly the operations whose write had completed, still accept the GCA's registration if none was durable (the registration must show in the state and in the key file, and the new owner must be able to authorize a device), and be idempotent. Thorough enumerates every crash point of every history; quick a seeded half. A supplement (a third of the budget, skipped with a NOTE where ptrace is unavailable) runs the same worker under strace and cuts after every completed file-mutating system call below the server's directory, hooks or not.",
         "Process-crash model (completed system calls survive); power-loss effects are outside the property and not injected; real SIGKILL is replaced by disk forks at system-call boundaries (replayable)."),
})

CLAIMED.update({
 "C12": ("exploration", "5.12", "Hostile datagrams, TCP sessions and HTTP requests (nine routes x five methods x hostile queries and bodies, incl. correctly GCA-signed structures with extreme fields) at (now, offset) configurations incl. a stalled rotation thread up to now-offset 4500 and traffic injected inside the start-up catch-up loop; authorized peers up, down, refusing, timing out or answering 503 while authorizations and server posts are forwarded; 0-6 idle or half-sent sync connections at Close(). After every input: no handler panic (recover wrapper is the witness), liveness probe answered, every mutex free; Close() bounded by 2 x serverShutdownTime of simulated time.",
         "net/http connection handling and the accept loops are stubs; GCA-signed inputs never assign one key to two ids; a production-constant supplement (a third of the budget) restarts a server after weeks offline with real weekly WattTime fetches against a responding / slow / failing service, injects traffic inside the catch-up loop and exercises geo-stats with WattTime and NASA responders."),
})

CLAIMED.update({
 "C13": ("exploration", "5.13 + 3.10", "Deterministic part: 10-40 operations with the rotation and impact loops running; every place where an operation or job runs between two critical sections is a yield site; at each park 0-2 interfering operations from the menu {ban, authorize, report, rotate, statistics GET with insert_false_negatives, server post, sync} are injected; model effects are applied at every quiescent point in exactly the order of the real critical sections; after every step every mutex must be free (leaked-lock probe), mutex deadlocks are caught by a real-time watchdog, panics in background jobs by the parent. Supplements: the production-constant build (weekly and two-minute WattTime jobs doing real work) and a build against a copy of the repository with a yield point inserted in front of every mutex acquisition of the server package (gaps that a change introduces have a site there). Race part (auxiliary, not deterministic): the same world free-running with 8-48 goroutines per workload in a -race binary; any report with repository frames is a violation.",
         "Interleavings at the hooked critical-section boundaries and, in the auto-yield supplement, in front of every lock acquisition of the server package (client code and code inside a critical section have no inserted sites: the race part covers those); the race part samples real schedules, adds order-independent oracles (slot values, registration count, consistency check) in strong runs and cannot be replayed exactly (re-run up to 10 times); a production-constant supplement interleaves bans, authorizations and reports with the weekly WattTime job."),
})

CLAIMED.update({
 "C14": ("exploration", "5.14", "Archive request tasks park at every gap between two files while a seeded write burst (new device + first report; registration + first device + report; rotation; reports) is injected; nested, paired and staggered requests (two admitted at different instants, finished in a seeded order with a burst between them, then limit-1 immediate requests and one between the two admissions' window expiries) and request bursts at one simulated instant probe the limiter. Every 200 reply is unzipped: exact names, record-aligned prefixes of the final files, dependency closure (reports verify under archived authorizations, authorizations under the archived GCA key, weekly records under server.pubkey), no private-key bytes in compressed or decompressed form, never more than the limit admitted inside one rate window.",
         "Assumes one write call is atomic with respect to a concurrent read of the same file (README); bursts are injected between files, not inside a write."),
 "C08": ("exploration", "5.8", "Full world: the real client (own send loop and sync rounds), a meter appending readings, 1-3 real servers; every datagram independently dropped / duplicated / delayed / reordered, sync sessions refused / reset / cut / corrupted, servers down, optional rotation and restart; then faults stop, a sync round runs against reachable servers and the contacted server must hold a record for every still-acceptable slot of its window for which the device has a reading. At all times every acted-on datagram of a slot is byte-identical and no slot of the device is banned on any server.",
         "Readings fit 32 signed bits (the property's restriction); coverage is claimed for the server contacted by the final round; socket layer is the simulated fabric."),
})

CLAIMED.update({
 "C09": ("exploration", "5.9", "Real client, a meter performing seeded edit sequences on energy_data.csv (append, rewrite, duplicate timestamp, reorder, malformed lines, header variants, truncate-then-write with a client read in between), client restarts, every datagram captured at a UDP sink, sync rounds whose retransmissions cover every stored slot. All acted-on datagrams of one slot must be identical and carry the stored first reading; stored readings never change. Then the history store through its save/load wrappers against a map model with slots before the origin, at it, far beyond the file end, at the 32 bit offset wrap, and value 0. Readings outside the 32 bit signed range are a separate generator class whose violation is a recorded known finding.",
         "Known finding C09.first@wide / C09.identity@wide (64 bit live value vs 32 bit history) is printed as KNOWN-FINDING and does not fail the check."),
})

CLAIMED.update({
 "C10": ("exploration", "5.10", "Server states with report sets at window edges (incl. banned slots), 0-6 authorized servers with location lengths 0-255 and ban flags, with/without a migration order, after 0-2 rotations; the genuine exchange between the real client parser and the real sync handler is recorded: an independent decoder of the documented layout must equal the server snapshot and the client's parse; unknown ids get the one-byte refusal. Tampering by the fabric and a rogue signer: single-bit flips (all bits of prefix, timestamp and signature in reach; thorough: every bit of the reply), truncation at field boundaries, extension, rewritten length prefixes, re-signing under every other key, timestamps at +-86400 (accepted) and +-86401 s (rejected), replies bound to another device, server entries and migration orders with missing or foreign GCA signatures; every tampered reply must be rejected with client state and files unchanged.",
         "The parser is exercised through its accessor (same code as the sync round uses); TCP is the simulated connection."),
 "C11": ("exploration", "5.11", "A real client with 1-5 servers, each honest (real node), down, flaky (refuse / reset / short read / corrupted reply) or rogue (harness answering with the server's real key: arbitrary byte strings of 0-65535 bytes, every length class around the fixed header sizes, correctly signed short replies, hundreds of entries, inconsistent location lengths, GCA-signed ban entries, un-ban replays, stale timestamps, foreign keys, finite stalls), all-banned and all-failed configurations, restarts, 100-400 ticks of the client's own cadence (overlapping rounds). At every quiescent point: client mutex free, ban knowledge monotone in state and file (also across restart), no dial to a known-banned server; afterwards new readings still produce datagrams and a new dial happens within 64 ticks.",
         "A stall ends after finite simulated time; 'selects' is read as the choice made by the selection step (recorded right behind it) and at start-up."),
 "C17": ("exploration", "5.15", "Server side: 10-40 server-authorization posts (new, duplicate with changed ports/location, ban, un-ban attempt, bad/foreign signature, before registration) to 1-3 mutually forwarding real servers with peers up/down/failing; every post a server handles, direct or forwarded through the fabric, is applied to that server's list model and the served list compared after every post. Client side: 6-20 sync rounds against real servers (lists, GCA-signed migration orders) and a rogue holding a configured server's key (orders for another device, outer signature by a foreign or the new GCA, inner signatures by the old GCA, un-ban replays, changed ports), client restarts; an independent validity predicate and the signature rules give the expected identity and server map, compared with state, the three files and a restart; a fifth of the rounds are an overlapping pair (the older round parked behind its merge, a ban posted, a complete younger round, the older one released).",
         "List replacement at migration and 'entry replaced by the GCA-signed ban entry' follow the documented behaviour; the rogue cannot forge GCA signatures."),
})

CLAIMED.update({
 "C18": ("exploration", "5.16", "The EventLogger alone under the simulated clock: 100-3000 calls per run (Printf with line lengths 0..2x the line limit, repeated and fresh lines; ExpireLogs at cut times before/between/after stored timestamps; DumpLogEntries) with clock advances of 0 ns (ties), nanoseconds, around the expiry and simulated years, over seven (max bytes, max line) x five expiry configurations incl. a maximum smaller than one line; after every call the dump is compared with a bounded-log reference model (exact timestamps, bound, accounting after expiry, newest retained, eviction least-recently-updated first and minimal with ties accepted, truncation, dump order, no panic).",
         "Observed through DumpLogEntries only; ties in update time accept any consistent eviction."),
 "C19": ("exploration", "5.17", "The rate limiter with 1-64 caller tasks under the simulated clock over limits 1-10 and windows 1 ms - 1 h; arrival patterns tight loop, bursts, paced just below/above the window share, exact multiples of the window; callers park after waking so same-instant arrivals execute in a seeded order, every call is stamped with the exact simulated time; over-admission = limit+1 admissions spanning strictly less than the window, starvation = rejection with fewer than limit admissions in the closed preceding window (certain violations only).",
         "Real parallel callers of the limiter are exercised by C13's race mode through the archive endpoint."),
 "C20": ("exploration", "5.18", "Production-constant flavour (-tags verif): (a) the simulated clock walks from before genesis through slot edges, strides of hours to years and the end of the 32 bit second range (year 2159); at every visited instant CurrentTimeslot, UnixToTimeslot and TimeslotToUnix are compared with an integer model (round trip, monotonicity, pre-genesis refusal, genesis constant). (c) a production-constant server runs 2-4 simulated weeks with two devices reporting now+432 and now-432 every slot, the hourly rotation check delayed by up to one period, WattTime answering / slow / failing through the http.DefaultTransport seam: no report acceptable by its timeslot may fall outside the stored window, now-offset+432 stays below 4032, weeks archive contiguously, model agreement; once per run the server is offline for 1-500 hours and the edge reports are sent ten minutes after the restart. A test-flavour supplement (settable protocol clock) checks the acceptance comparison at clocks 0..500, 2^31+-k and 2^32-1-k.",
         "The pure conversions are exercised at visited instants plus listed boundaries (input enumeration, stated as such); the acceptance comparison at the ends of the 32 bit range runs in the test-flavour supplement (a server cannot reach clocks near 2^32 by real rotations, the clock is set there); the WattTime responder's answers are keyed by (run key, path, simulated time)."),
})

NOT_YET = {
}

NOT_APPLICABLE = {
 "C15": "pure encode/decode functions of their input: no schedule, clock, fault or interleaving for a simulator to control (DESIGN.md section 6)",
 "C16": "pure function of (energy file content, calibration file): no time, concurrency or fault dimension; simulating it would be input fuzzing in simulator vocabulary (DESIGN.md section 6)",
}

def main():
    props = [json.loads(l)["id"] for l in open(os.path.join(HERE, "properties.jsonl"))]
    checks = []
    for pid in props:
        if pid in CLAIMED:
            level, ref, text, note = CLAIMED[pid]
            checks.append({
                "property_id": pid,
                "quick_cmd": f"bin/check {pid} --tier quick",
                "thorough_cmd": f"bin/check {pid} --tier thorough",
                "evidence_file": f"evidence/{pid}.json",
                "replay_cmd_template": f"bin/check {pid} --replay {{path}}",
                "engine": "sim",
                "level_claimed": {"category": level, "text": text, "design_ref": "DESIGN.md " + ref},
                "level_note": note,
                "technique": TECH,
            })
    na = []
    for pid in props:
        if pid in CLAIMED:
            continue
        if pid in NOT_APPLICABLE:
            na.append({"property_id": pid, "reason": NOT_APPLICABLE[pid]})
        else:
            na.append({"property_id": pid, "reason": NOT_YET.get(pid, "not claimed yet: its simulation check is designed (DESIGN.md section 5) but not built at this commit")})
    m = {
        "version": 1,
        "setup_cmd": "bin/setup",
        "hooks": {
            "guard": "verif (Go build tag)",
            "enable": "go test -c -tags 'test verif' (T flavour) / -tags verif (P flavour) of /verif/sim with replace => /repo, Go 1.26.8",
            "baseline_off_cmd": "cd /repo && go test -json -vet=off -count=1 -timeout 25m ./...",
            "source_commits": hook_commits(),
            "add_only": True,
        },
        "engines": [{
            "name": "sim", "path": "sim",
            "serves_properties": sorted(CLAIMED.keys()),
            "kind_free_text": "whole-system deterministic simulator for Go written for this repo: synctest bubble (fake clock, quiescence), yield-point scheduler choosing every goroutine release from a seeded tape, simulated UDP/TCP/HTTP fabric with loss/dup/reorder/corruption/refusal/partition, disk forks for crash points, reference-model oracles, tape minimisation and exact replay",
        }],
        "checks": checks,
        "not_applicable": na,
        "notes": "bin/check <id> rebuilds the worker from /repo's working tree on every call. known_findings.json lists recorded and fixed defects. Exit 2 = harness trouble, never a violation.",
    }
    json.dump(m, open(os.path.join(HERE, "MANIFEST.json"), "w"), indent=1)
    print("wrote MANIFEST.json:", len(checks), "checks,", len(na), "not claimed")

main()
