#!/usr/bin/env python3
"""Regenerates /verif/MANIFEST.json from the table below (kept in one place so
that MANIFEST.json is always valid and consistent with what is built)."""
import json, os, subprocess

HERE = os.path.dirname(os.path.dirname(os.path.abspath(__file__)))

def hook_commits():
    try:
        out = subprocess.check_output(["git", "-C", "/repo", "log", "--format=%H %s"], text=True)
    except Exception:
        return []
    return [l.split()[0] for l in out.splitlines() if " verif hooks:" in " " + l]

TECH = "deterministic simulation with fault injection: real code in a testing/synctest bubble under a seeded yield-point scheduler, simulated clock/network, fault injection; seeded search with tape minimisation and exact replay"

# id -> (level, design section, text, note)
CLAIMED = {
 "C02": ("exploration", "5.2", "Seeded histories of valid reports (replays, re-signed variants, capacity-boundary and negative-encoded values) through a duplicating/reordering/dropping UDP fabric into the real server; per (device,slot) reference machine compared on the whole snapshot after every delivery, through stats/sync surfaces, and across a second delivery order; thorough adds exhaustive sequences up to length 4 over a 12-symbol alphabet. Sampling, not proof.",
         "Trusts go-ethereum secp256k1, testing/synctest, the harness reference model; UDP socket loop is a stub; capacities < 2^56."),
}

NOT_YET = {
}

NOT_APPLICABLE = {
 "C15": "pure encode/decode functions of their input: no schedule, clock, fault or interleaving for a simulator to control (DESIGN.md section 6)",
 "C16": "pure function of (energy file content, calibration file): no time, concurrency or fault dimension; simulating it would be input fuzzing in simulator vocabulary (DESIGN.md section 6)",
}

def main():
    props = [json.loads(l)["id"] for l in open(os.path.join(HERE, "properties.jsonl"))]
    checks = []
    for pid in props:
        if pid in CLAIMED:
            level, ref, text, note = CLAIMED[pid]
            checks.append({
                "property_id": pid,
                "quick_cmd": f"bin/check {pid} --tier quick",
                "thorough_cmd": f"bin/check {pid} --tier thorough",
                "evidence_file": f"evidence/{pid}.json",
                "replay_cmd_template": f"bin/check {pid} --replay {{path}}",
                "engine": "sim",
                "level_claimed": {"category": level, "text": text, "design_ref": "DESIGN.md " + ref},
                "level_note": note,
                "technique": TECH,
            })
    na = []
    for pid in props:
        if pid in CLAIMED:
            continue
        if pid in NOT_APPLICABLE:
            na.append({"property_id": pid, "reason": NOT_APPLICABLE[pid]})
        else:
            na.append({"property_id": pid, "reason": NOT_YET.get(pid, "not claimed yet: its simulation check is designed (DESIGN.md section 5) but not built at this commit")})
    m = {
        "version": 1,
        "setup_cmd": "bin/setup",
        "hooks": {
            "guard": "verif (Go build tag)",
            "enable": "go test -c -tags 'test verif' (T flavour) / -tags verif (P flavour) of /verif/sim with replace => /repo, Go 1.26.8",
            "baseline_off_cmd": "cd /repo && go test -json -vet=off -count=1 -timeout 25m ./...",
            "source_commits": hook_commits(),
            "add_only": True,
        },
        "engines": [{
            "name": "sim", "path": "sim",
            "serves_properties": sorted(CLAIMED.keys()),
            "kind_free_text": "whole-system deterministic simulator for Go written for this repo: synctest bubble (fake clock, quiescence), yield-point scheduler choosing every goroutine release from a seeded tape, simulated UDP/TCP/HTTP fabric with loss/dup/reorder/corruption/refusal/partition, disk forks for crash points, reference-model oracles, tape minimisation and exact replay",
        }],
        "checks": checks,
        "not_applicable": na,
        "notes": "bin/check <id> rebuilds the worker from /repo's working tree on every call. known_findings.json lists recorded and fixed defects. Exit 2 = harness trouble, never a violation.",
    }
    json.dump(m, open(os.path.join(HERE, "MANIFEST.json"), "w"), indent=1)
    print("wrote MANIFEST.json:", len(checks), "checks,", len(na), "not claimed")

main()
