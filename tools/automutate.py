#!/usr/bin/env python3
"""Automatic token-level mutants (comparison operators, && / ||, integer
literals +-1) of the files the properties are anchored in. A seeded sample is
applied one at a time to scratch worktrees of /repo; a mutant that compiles
(the pinned suite has tests only in package glow - those must pass for glow
files) is run against the quick checks of the properties anchored in its file,
stopping at the first check that reports a violation. Survivors are listed for
triage (equivalent mutants are expected among them).
Usage: tools/automutate.py [--n 60] [--seed 1] [--budget 20] [--workers 16] [--files f1,f2]"""
import json, os, random, subprocess, sys, shutil, tempfile, time

HERE = os.path.dirname(os.path.dirname(os.path.abspath(__file__)))
NA = {"C15", "C16"}

def sh(cmd, **kw):
    return subprocess.run(cmd, shell=True, text=True, capture_output=True, **kw)

def main():
    a = sys.argv[1:]
    def opt(name, d):
        return a[a.index(name)+1] if name in a else d
    n, seed, budget, workers = int(opt("--n", 60)), int(opt("--seed", 1)), opt("--budget", "20"), opt("--workers", "16")
    anchors = {}
    for l in open(os.path.join(HERE, "properties.jsonl")):
        p = json.loads(l)
        if p["id"] in NA: continue
        for f in p["anchors"]["files"]:
            if f.endswith(".go") and not f.endswith("_t.go") and "testing" not in f:
                anchors.setdefault(f, []).append(p["id"])
    files = sorted(anchors)
    if "--files" in a:
        files = [f for f in files if f in opt("--files", "").split(",")]
    env = "GOFLAGS=-mod=mod GOPROXY=off GOSUMDB=off GOTOOLCHAIN=local"
    r = sh(f"cd {HERE}/sim && {env} go1.26.8 run ./cmd/automutate /repo " + " ".join(files))
    muts = [json.loads(l) for l in r.stdout.splitlines() if l.strip()]
    random.Random(seed).shuffle(muts)
    print(f"{len(muts)} candidate mutants in {len(files)} files; running {n}", flush=True)
    done, survivors = 0, []
    for m in muts:
        if done >= n: break
        wt = tempfile.mkdtemp(prefix="am-", dir="/tmp"); os.rmdir(wt); art = wt + "-art"
        try:
            sh(f"git -C /repo worktree add --detach {wt} HEAD")
            p = os.path.join(wt, m["file"]); src = open(p, "rb").read()
            old = m["old"].encode()
            if src[m["offset"]:m["offset"]+len(old)] != old: continue
            open(p, "wb").write(src[:m["offset"]] + m["new"].encode() + src[m["offset"]+len(old):])
            b = sh(f"cd {wt} && go build ./... && go build -tags test ./... && go vet ./glow")
            if b.returncode != 0: continue
            if m["file"].startswith("glow/"):
                ok = False
                for _ in range(3):
                    t = sh(f"cd {wt} && go test -vet=off -count=1 ./glow 2>&1 | tail -1")
                    if t.stdout.startswith("ok"): ok = True; break
                if not ok:
                    print(f'{m["file"]}:{m["line"]} {m["old"]}->{m["new"]} killed by the pinned suite', flush=True); continue
            done += 1
            caught = None; t0 = time.time()
            for prop in anchors[m["file"]]:
                envs = f"VERIF_REPO={wt} VERIF_BUILD_DIR={art}/build VERIF_ARTIFACT_DIR={art}"
                r = sh(f"cd {HERE} && {envs} bin/check {prop} --tier quick --budget {budget} --workers {workers}")
                if r.returncode == 1 and "VIOLATION property=" + prop in r.stdout:
                    v = [l for l in r.stdout.splitlines() if l.startswith("violation:")][:1]
                    caught = (prop, v[0][:140] if v else ""); break
                if r.returncode == 2:
                    # harness trouble is not a detection: note it and try the next property
                    print(f'  EXIT2 {m["file"]}:{m["line"]} {m["old"]}->{m["new"]} [{prop}] ' + (r.stdout.strip().splitlines() or [""])[-1][:160], flush=True)
            tag = f'{m["file"]}:{m["line"]} {m["old"]}->{m["new"]} | {m["text"][:90]}'
            if caught:
                print(f"CAUGHT {tag} | by {caught[0]} {caught[1]} ({time.time()-t0:.0f}s)", flush=True)
            else:
                survivors.append(tag); print(f"SURVIVED {tag} | checks {anchors[m['file']]} ({time.time()-t0:.0f}s)", flush=True)
        finally:
            sh(f"git -C /repo worktree remove --force {wt}"); shutil.rmtree(wt, ignore_errors=True); shutil.rmtree(art, ignore_errors=True)
    print(f"summary: {done} mutants run, {len(survivors)} survived")
    for s in survivors: print("  " + s)

main()
