#!/bin/bash
# run_seeded.sh <seeded-name> <prop> [budget] : applies /verif/seeded/<name>/patch.diff to a scratch worktree of /repo
# and runs the quick check of <prop> against it (VERIF_REPO), then removes the worktree and its build output.
NAME=$1; PROP=$2; BUDGET=${3:-25}
WT=/tmp/seedrun-$NAME-$PROP; ART=$WT-art
git -C /repo worktree remove --force $WT >/dev/null 2>&1
git -C /repo worktree add --detach $WT HEAD >/dev/null 2>&1 || { echo "worktree failed"; exit 2; }
(cd $WT && git apply /verif/seeded/$NAME/patch.diff) || { echo "patch does not apply"; git -C /repo worktree remove --force $WT; exit 2; }
cd /verif && VERIF_REPO=$WT VERIF_BUILD_DIR=$ART/build VERIF_ARTIFACT_DIR=$ART bin/check $PROP --tier quick --budget $BUDGET 2>&1 | grep -v "^minimised" | tail -4
RC=${PIPESTATUS[0]}
echo "exit=$RC"
git -C /repo worktree remove --force $WT; rm -rf $WT $ART
exit $RC
