#!/usr/bin/env python3
"""Sensitivity self-test: applies each small property-breaking change from
mutants/table.json to a scratch git worktree of /repo (outside /repo and
/verif), points the check driver at it (VERIF_REPO, -modfile build), runs the
matching check and requires a VIOLATION. The worktree and its build output are
removed afterwards. Usage:
  tools/sensitivity.py [--tier quick] [--budget S] [--jobs N] [id-or-property ...]"""
import json, os, subprocess, sys, time, shutil, tempfile
from concurrent.futures import ThreadPoolExecutor

HERE = os.path.dirname(os.path.dirname(os.path.abspath(__file__)))

def sh(cmd, **kw):
    return subprocess.run(cmd, shell=True, text=True, capture_output=True, **kw)

def run_mutant(m, tier, budget, workers):
    wt = tempfile.mkdtemp(prefix="mut-%s-" % m["id"], dir="/tmp")
    os.rmdir(wt)
    art = wt + "-art"
    out = []
    status = "MISSED"
    try:
        r = sh(f"git -C /repo worktree add --detach {wt} HEAD")
        if r.returncode != 0:
            return m["id"], "WORKTREE-FAILED", [r.stderr]
        path = os.path.join(wt, m["file"])
        src = open(path).read()
        if src.count(m["old"]) != m.get("count", 1):
            return m["id"], "STALE", [f'anchor occurs {src.count(m["old"])} times, expected {m.get("count",1)}']
        open(path, "w").write(src.replace(m["old"], m["new"]))
        b = sh(f"cd {wt} && go build ./... ")
        if b.returncode != 0:
            return m["id"], "NOCOMPILE", [b.stderr[:400]]
        if m["file"].startswith("glow/"):
            # the pinned suite only has tests in package glow
            for attempt in range(3):
                t = sh(f"cd {wt} && go test -vet=off -count=1 ./glow 2>&1 | tail -1")
                if "ok" in t.stdout: break
            if "ok" not in t.stdout:
                return m["id"], "BASELINE-FAILS", [t.stdout.strip()]
        caught = []
        for p in m["props"]:
            t0 = time.time()
            env = f"VERIF_REPO={wt} VERIF_BUILD_DIR={art}/build VERIF_ARTIFACT_DIR={art}"
            cmd = f"cd {HERE} && {env} bin/check {p} --tier {tier} --workers {workers}" + (f" --budget {budget}" if budget else "")
            r = sh(cmd)
            ok = r.returncode == 1 and "VIOLATION property=" + p in r.stdout
            line = [l for l in r.stdout.splitlines() if l.startswith("violation:")][:1]
            caught.append(ok)
            out.append(f'{m["id"]} [{p}] {"CAUGHT" if ok else "MISSED (exit %d)" % r.returncode} in {time.time()-t0:.0f}s {line[0][:200] if line else r.stdout.strip().splitlines()[-1:]}')
        status = "CAUGHT" if all(caught) else "MISSED"
    finally:
        sh(f"git -C /repo worktree remove --force {wt}")
        shutil.rmtree(art, ignore_errors=True)
        shutil.rmtree(wt, ignore_errors=True)
    return m["id"], status, out

def main():
    args = sys.argv[1:]
    tier, budget, jobs = "quick", None, 2
    sel = []
    i = 0
    while i < len(args):
        if args[i] == "--tier": tier = args[i+1]; i += 2
        elif args[i] == "--budget": budget = args[i+1]; i += 2
        elif args[i] == "--jobs": jobs = int(args[i+1]); i += 2
        else: sel.append(args[i]); i += 1
    table = json.load(open(os.path.join(HERE, "mutants", "table.json")))
    todo = [m for m in table if not sel or m["id"] in sel or any(p in sel for p in m["props"])]
    workers = max(2, 16 // jobs)
    results = []
    with ThreadPoolExecutor(max_workers=jobs) as ex:
        for mid, status, out in ex.map(lambda m: run_mutant(m, tier, budget, workers), todo):
            for l in out: print(l, flush=True)
            if status not in ("CAUGHT", "MISSED"): print(mid, status, out, flush=True)
            results.append((mid, status))
    print("\nsummary:", json.dumps(results))
    sys.exit(0 if all(r[1] == "CAUGHT" for r in results) else 1)

main()
