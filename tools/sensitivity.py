#!/usr/bin/env python3
"""Sensitivity self-test: applies each small property-breaking change from
mutants/table.json to /repo (string replacement, restored with git checkout),
runs the matching check and requires a VIOLATION. Usage:
  tools/sensitivity.py [--tier quick] [--budget S] [id-or-property ...]"""
import json, os, subprocess, sys, time

HERE = os.path.dirname(os.path.dirname(os.path.abspath(__file__)))
REPO = "/repo"

def sh(cmd, **kw):
    return subprocess.run(cmd, shell=True, text=True, capture_output=True, **kw)

def main():
    args = sys.argv[1:]
    tier, budget = "quick", None
    sel = []
    i = 0
    while i < len(args):
        if args[i] == "--tier": tier = args[i+1]; i += 2
        elif args[i] == "--budget": budget = args[i+1]; i += 2
        else: sel.append(args[i]); i += 1
    table = json.load(open(os.path.join(HERE, "mutants", "table.json")))
    if sh("git -C /repo status --porcelain --untracked-files=no").stdout.strip():
        print("refusing: /repo has uncommitted changes"); sys.exit(2)
    results = []
    for m in table:
        if sel and m["id"] not in sel and not any(p in sel for p in m["props"]):
            continue
        path = os.path.join(REPO, m["file"])
        src = open(path).read()
        if src.count(m["old"]) != m.get("count", 1):
            print(f'{m["id"]}: anchor occurs {src.count(m["old"])} times, expected {m.get("count",1)} -> STALE'); results.append((m["id"], "STALE")); continue
        try:
            open(path, "w").write(src.replace(m["old"], m["new"]))
            b = sh("cd /repo && go build ./... && go vet ./glow >/dev/null 2>&1; go build ./...")
            if b.returncode != 0:
                print(f'{m["id"]}: does not compile: {b.stderr[:300]}'); results.append((m["id"], "NOCOMPILE")); continue
            if m.get("baseline", True):
                t = sh("cd /repo && go test -vet=off -count=1 ./glow 2>&1 | tail -1")
                if "ok" not in t.stdout:
                    print(f'{m["id"]}: baseline suite fails with the change (not a valid mutant): {t.stdout.strip()}'); results.append((m["id"], "BASELINE-FAILS")); continue
            caught = []
            for p in m["props"]:
                t0 = time.time()
                cmd = f"cd {HERE} && bin/check {p} --tier {tier}" + (f" --budget {budget}" if budget else "")
                r = sh(cmd)
                ok = r.returncode == 1 and "VIOLATION property=" + p in r.stdout
                line = [l for l in r.stdout.splitlines() if l.startswith("violation:")][:1]
                caught.append(ok)
                print(f'{m["id"]} [{p}] {"CAUGHT" if ok else "MISSED (exit %d)" % r.returncode} in {time.time()-t0:.0f}s {line[0] if line else r.stdout.strip().splitlines()[-1:]}')
            results.append((m["id"], "CAUGHT" if all(caught) else "MISSED"))
        finally:
            sh("git -C /repo checkout -- .")
    print("\nsummary:", json.dumps(results))
    sys.exit(0 if all(r[1] == "CAUGHT" for r in results) else 1)

main()
