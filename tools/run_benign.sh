#!/bin/bash
# run_benign.sh <patch-file> <budget> <prop>... : applies a behaviour-preserving patch to a scratch worktree of /repo and
# runs the quick checks of the given properties against it; none may report a violation (exit 1) or harness trouble (2).
PATCH=$1; BUDGET=$2; shift 2
TAG=$(basename $(dirname $PATCH))-$(basename $PATCH .diff)
WT=/tmp/benignrun-$TAG; ART=$WT-art
git -C /repo worktree remove --force $WT >/dev/null 2>&1
git -C /repo worktree add --detach $WT HEAD >/dev/null 2>&1 || { echo "worktree failed"; exit 2; }
(cd $WT && git apply $PATCH) || { echo "$TAG: patch does not apply"; git -C /repo worktree remove --force $WT; exit 2; }
cd /verif
for P in "$@"; do
  OUT=$(VERIF_REPO=$WT VERIF_BUILD_DIR=$ART/build VERIF_ARTIFACT_DIR=$ART bin/check $P --tier quick --budget $BUDGET 2>&1); RC=$?
  echo "$TAG $P exit=$RC $(echo "$OUT" | grep -v '^WARNING\|^minimised' | grep 'violation:\|HARNESS\|KNOWN' | head -3 | tr '\n' ' ')"
  if [ $RC -ne 0 ]; then mkdir -p /verif/.build/benign-fail; cp -r $ART/replays /verif/.build/benign-fail/$TAG-$P 2>/dev/null; fi
done
git -C /repo worktree remove --force $WT; rm -rf $WT $ART
