#!/bin/bash
# seeded_intake.sh <name> <out-dir> <demo-dest-relative-path> <demo-run-cmd> -- confirms a seeded change in a fresh scratch worktree:
# builds, pinned suite passes with it, demo fails with it and passes without it. Copies the material to /verif/seeded/<name>/.
set -u
NAME=$1; OUT=$2; DEMO_DEST=$3; DEMO_CMD=$4
export GOFLAGS=-mod=mod GOPROXY=off GOSUMDB=off
WT=/tmp/intake-$NAME
git -C /repo worktree remove --force $WT >/dev/null 2>&1
git -C /repo worktree add --detach $WT HEAD >/dev/null 2>&1 || { echo "worktree failed"; exit 2; }
DEMO_FILE=$(ls $OUT/*_test.go | head -1)
cp $DEMO_FILE $WT/$DEMO_DEST
echo "--- demo WITHOUT the change (must pass)"
(cd $WT && eval "$DEMO_CMD" 2>&1 | tail -3); R0=${PIPESTATUS[0]}
(cd $WT && git apply $OUT/patch.diff) || { echo "patch does not apply"; git -C /repo worktree remove --force $WT; exit 2; }
echo "--- build + pinned suite WITH the change"
(cd $WT && go build ./... && go vet ./glow && for i in 1 2 3 4; do r=$(go test -vet=off -count=1 ./glow 2>&1 | tail -1); echo "$r"; case "$r" in ok*) break;; esac; done)
echo "--- demo WITH the change (must fail)"
(cd $WT && eval "$DEMO_CMD" 2>&1 | tail -4)
mkdir -p /verif/seeded/$NAME
cp $OUT/patch.diff $OUT/meta.json $DEMO_FILE /verif/seeded/$NAME/ 2>/dev/null
git -C /repo worktree remove --force $WT
rm -rf $WT
