//go:build test

package sim

// C05 - a crash at any point leaves a server that starts and keeps the durable
// prefix. Crash = disk fork: at every observation point around a persistence
// write (and between create and write of server.keys) and at every boundary
// between operations the data directory is copied - the disk exactly as a
// process kill at that instant leaves it under the process-crash model (the
// kernel keeps completed system calls). For truncate-then-write and
// create-then-write files the intermediate "present but empty" state is
// materialised too. After the main world has been shut down every fork is
// booted as a fresh server incarnation and checked: it starts, its state
// equals the model after exactly the operations whose write had completed,
// an unregistered server can still be registered, a second restart changes
// nothing.

import (
	"bytes"
	"fmt"
	"os"
	"path/filepath"
	"time"

	"github.com/glowlabs-org/gca-backend/glow"
	"github.com/glowlabs-org/gca-backend/server"
)

func init() {
	Register(&Property{
		ID:             "C05",
		Run:            runC05,
		Level:          "fault_enumeration",
		Rule:           "runs = generated histories (first start, registration, authorizations incl. conflicts, reports, rotations incl. start-up catch-up); fault space per history = every observation point before/after each persistence write, between create and write of server.keys, every boundary between operations, plus the present-but-empty states of server.keys and gcaPubKey.dat (thorough: all of them; quick: seeded half); each crash point = one disk fork booted twice; in addition (a third of the budget, S flavour) the same kind of history runs under strace and the disk after EVERY completed file-mutating system call below the server directory (creates, truncates, writes with their data, renames, unlinks - hooks play no part) is rebuilt and recovered: a cut inside an operation may show the state before or after it, a cut between operations exactly the state after the last one; evaluations counts runs, crash points are in coverage.crash_points; non-trivial = the run booted at least one fork taken inside an operation; distinct = distinct decision signatures",
		Real:           []string{"every persistence write path (server.keys, gcaPubKey.dat, equipment-authorizations.dat, equipment-reports.dat, allDeviceStats.dat)", "NewGCAServer recovery path", "registration on the recovered server"},
		Stub:           []string{"process death (disk fork at a system-call boundary + fresh incarnation; in the S flavour the boundary list comes from strace of the real system calls)", "socket listeners"},
		Assumptions:    []string{"process-crash model: the kernel keeps completed system calls; power-loss effects (torn or lost writes, fsync ordering) are outside the property and not injected", "observation-point forks: each operation performs exactly one persistence write, so the recovered state is exact; system-call cuts inside an operation: the state before or the state after that operation"},
		NotInjected:    []string{"torn or lost writes after power loss", "fsync ordering", "disk full / short writes / EIO", "real SIGKILL of an OS process (not replayable; the reachable post-crash disk states are the system-call boundaries, which the strace mode enumerates from the recorded call list)"},
		RequiredProbes: []string{"c05.fork.report.before-write", "c05.fork.report.after-write", "c05.fork.auth.after-write", "c05.fork.stats.before-write", "c05.fork.stats.after-write", "c05.fork.gcakey.before-write", "c05.fork.keys.created", "c05.fork.empty-gcakey", "c05.fork.boundary", "c05.fork.conflict", "c05.register-after-crash"},
		RequiredSites:  []string{"report.before-write", "report.after-write", "auth.before-write", "auth.after-write", "gcakey.before-write", "gcakey.after-write", "stats.before-write", "stats.after-write", "keys.created", "keys.written", "migrate.before-shift", "migrate.after-shift"},
	})
}

type c05Fork struct {
	dir      string
	site     string
	model    *ServerModel
	pending  bool // model to be taken after the operation in flight completes
	extraRot int  // rotations completed (or durable) but not yet applied to the model
	slot     uint32
	firstKey bool // taken during the first start: the server key is unknown
	// alt is a second admissible state (system-call-boundary cuts inside an
	// operation: the state before the operation or the state after it).
	alt *ServerModel
}

type c05State struct {
	h         *Hist
	forks     []*c05Fork
	inOp      bool
	all       bool
	booting   bool
	forkCount int
}

func copyDir(src, dst string) {
	must(os.MkdirAll(dst, 0755))
	ents, err := os.ReadDir(src)
	must(err)
	for _, e := range ents {
		if e.Name() == "server.log" {
			continue
		}
		if e.IsDir() {
			copyDir(filepath.Join(src, e.Name()), filepath.Join(dst, e.Name()))
			continue
		}
		b, err := os.ReadFile(filepath.Join(src, e.Name()))
		must(err)
		must(os.WriteFile(filepath.Join(dst, e.Name()), b, 0644))
	}
}

func (st *c05State) fork(site string, variant string) *c05Fork {
	h := st.h
	w := h.W
	st.forkCount++
	f := &c05Fork{dir: filepath.Join(w.Dir, fmt.Sprintf("crash-%03d", st.forkCount)), site: site + variant, slot: Slot()}
	copyDir(h.N.Dir, f.dir)
	if h.N.Model != nil {
		f.model = h.N.Model.Clone()
	}
	for _, c := range h.Rots {
		if c.post {
			f.extraRot++
		}
	}
	w.Probe("c05.fork." + site + variant)
	w.Probe("c05.forks")
	st.forks = append(st.forks, f)
	return f
}

// point is the observation-point callback (runs on the goroutine of the
// system under test, possibly under its lock): copy the directory, nothing
// else.
func (st *c05State) point(node, site string, owner interface{}) {
	h := st.h
	h.point(node, site, owner)
	if node != h.N.Name || st.booting {
		return
	}
	switch site {
	case "report.before-write", "auth.before-write", "gcakey.before-write", "stats.before-write",
		"report.after-write", "auth.after-write", "gcakey.after-write", "stats.after-write",
		"keys.created", "keys.written", "migrate.before-shift", "migrate.after-shift":
	default:
		return
	}
	if !st.all && !h.W.C.Chance("fork-here", 1, 2) {
		return
	}
	f := st.fork(site, "")
	switch site {
	case "report.after-write", "auth.after-write", "gcakey.after-write":
		f.pending = true
	case "stats.after-write", "migrate.before-shift", "migrate.after-shift":
		// The week record of the rotation in flight is durable.
		f.extraRot = 0
		for _, c := range h.Rots {
			if c.post {
				f.extraRot++
			}
		}
		if site != "migrate.after-shift" || (len(h.Rots) > 0 && !h.Rots[len(h.Rots)-1].post) {
			f.extraRot++
		}
	case "gcakey.before-write":
		// ioutil.WriteFile = open+truncate, write, close: the file may be
		// present but empty.
		e := st.fork(site, "+empty")
		must(os.WriteFile(filepath.Join(e.dir, "gcaPubKey.dat"), nil, 0644))
		h.W.Probe("c05.fork.empty-gcakey")
	case "keys.created", "keys.written":
		f.firstKey = true
	}
}

// done is called by the driver after an operation's effect was applied to the
// model: forks taken after the write of that operation get the new state.
func (st *c05State) done() {
	for _, f := range st.forks {
		if f.pending {
			f.model = st.h.N.Model.Clone()
			f.pending = false
		}
	}
}

func runC05(m *Sim) {
	if os.Getenv("VERIF_STRACE_FILE") != "" {
		runC05Trace(m)
		return
	}
	w := NewWorld(m)
	defer w.Shutdown()
	h := NewHist(w, "srv0", "C05")
	st := &c05State{h: h, all: m.Tier == "thorough"}
	w.S.pointFn = st.point
	SetSlot(uint32(m.C.Int("now0", 3000)))

	// First start: the server creates its own key pair (no pre-installed
	// server.keys), so the create-then-write window of server.keys exists.
	selfKey := m.C.Chance("self-key", 1, 2)
	if selfKey {
		os.Remove(filepath.Join(h.N.Dir, "server.keys"))
		h.N.Key = nil
	}
	h.N.Model = NewServerModel(h.N.Temp.Pub)
	if err := h.N.Start(); err != nil {
		m.Fail("C05.start", "first-start", "server does not start on a fresh directory: %v", err)
	}
	if selfKey {
		pk := h.N.S.PublicKey()
		h.N.Key = &KeyPair{Role: "key-self", Pub: pk}
	}
	boundary := func() {
		if st.all || m.C.Chance("fork-boundary", 1, 3) {
			st.fork("boundary", "")
		}
	}
	boundary()
	if m.C.Chance("register", 5, 6) {
		h.N.DoRegister(h.GCA.Pub, h.N.Temp)
		st.done()
		boundary()
		nd := 1 + m.C.Int("devices", 3)
		for i := 0; i < nd; i++ {
			h.NewDevice([]uint64{1000, 0, 1 << 40}[m.C.Int("cap", 3)])
			st.done()
		}
	}
	nops := 3 + m.C.Int("ops", 22)
	for i := 0; i < nops; i++ {
		switch m.C.Weighted("op", 8, 3, 2, 2) {
		case 0:
			h.OpReport()
		case 1:
			if h.N.Model.Registered {
				if h.OpAuthorize() == AuthConflict {
					m.Probe("c05.fork.conflict")
				}
			}
		case 2:
			h.OpClock()
		case 3:
			h.OpTime(time.Duration(20+m.C.Int("ms", 200)) * time.Millisecond)
		}
		st.done()
		h.Check("op")
		boundary()
	}
	if m.C.Chance("restart-catchup", 1, 3) {
		// A graceful restart with a late clock: catch-up rotations at start-up.
		SetSlot(Slot() + uint32(4000+m.C.Int("jump", 5000)))
		h.OpRestart(1)
		st.done()
		boundary()
	}
	mainKey := h.N.Key
	mainSlot := Slot()
	h.N.Stop()

	// ---- boot every fork ------------------------------------------------------
	st.booting = true
	w.Phase = "recovery"
	inside := 0
	for i, f := range st.forks {
		if f.site != "boundary" {
			inside++
		}
		SetSlot(f.slot)
		c05Recover(w, h, f, i, mainKey)
	}
	SetSlot(mainSlot)
	if inside > 0 {
		m.Probe("nontrivial")
	}
}

// c05Recover boots one fork and applies the recovery oracle.
func c05Recover(w *World, h *Hist, f *c05Fork, idx int, mainKey *KeyPair) {
	name := fmt.Sprintf("fork%03d", idx)
	n := &ServerNode{W: w, Name: name, Dir: f.dir, Loc: name + ".sim", Temp: h.N.Temp, HTTP: 9000, TCP: 9001, UDP: 9002}
	w.Servers[name] = n
	w.byLoc[n.Loc] = n
	defer func() {
		n.Stop()
		delete(w.Servers, name)
		delete(w.byLoc, n.Loc)
		os.RemoveAll(f.dir)
	}()
	// prep turns a durable state into the state a start-up at the current
	// clock produces from it (the documented catch-up).
	prep := func(model *ServerModel) *ServerModel {
		if model == nil {
			model = NewServerModel(h.N.Temp.Pub)
		}
		for i := 0; i < f.extraRot; i++ {
			model.Rotate()
		}
		model.CatchUp(Slot())
		if int64(Slot())-int64(model.Offset) > 3200 {
			model.Rotate()
		}
		return model
	}
	model := prep(f.model)
	savedRots := h.Rots
	h.Rots = nil
	var startErr error
	func() {
		defer func() {
			if r := recover(); r != nil {
				if v, ok := r.(*Violation); ok && v.Rule == "C05.panic" {
					w.Fail("C05.start", f.site, "crash at %s: the server panics when started on the directory left behind: %s", f.site, firstLine(v.Detail))
				}
				panic(r)
			}
		}()
		startErr = n.Start()
	}()
	h.Rots = savedRots
	if startErr != nil {
		w.Fail("C05.start", f.site, "crash at %s: the server does not start on the directory left behind: %v", f.site, startErr)
	}
	n.Model = model
	n.Key = mainKey
	if f.firstKey || mainKey == nil {
		pk := n.S.PublicKey()
		n.Key = &KeyPair{Role: "key-recovered", Pub: pk}
	}
	s := n.Snap()
	if err := model.CompareSnap(s); err != nil {
		matched := false
		if f.alt != nil {
			alt := prep(f.alt)
			if err2 := alt.CompareSnap(s); err2 == nil {
				model, matched = alt, true
				n.Model = alt
			} else {
				w.Fail("C05.prefix", f.site, "crash at %s: recovered state is neither the state before the operation in flight (%v) nor the state after it (%v)", f.site, err, err2)
			}
		}
		if !matched {
			w.Fail("C05.prefix", f.site, "crash at %s: recovered state is not the state after the operations whose write had completed: %v", f.site, err)
		}
	}
	for i := range model.Weeks {
		ads, ok := n.S.VerifHistoryWeek(i)
		if !ok {
			w.Fail("C05.prefix", f.site, "crash at %s: archived week %d missing after recovery", f.site, i)
		}
		if err := CompareWeek(&model.Weeks[i], &ads, n.Key.Pub); err != nil {
			w.Fail("C05.prefix", f.site, "crash at %s: %v", f.site, err)
		}
	}
	if !model.Registered {
		// The GCA must still be able to take ownership.
		res := n.Register(h.GCA.Pub, h.N.Temp)
		if res.Status != 200 {
			w.Fail("C05.register", f.site, "crash at %s: the GCA can no longer register on the recovered server: %d %s", f.site, res.Status, trim(res.Body))
		}
		reg := server.GCARegistration{GCAKey: h.GCA.Pub}
		reg.Signature = glow.Sign(RegistrationSigningBytes(h.GCA.Pub), h.N.Temp.Priv)
		model.Register(h.GCA.Pub, reg.Signature)
		w.Probe("c05.register-after-crash")
		// ... and the answer must be the truth: the key is in place (in memory
		// and in its file), and the new owner can authorize a device.
		if err := model.CompareSnap(n.Snap()); err != nil {
			w.Fail("C05.register", f.site, "crash at %s: the registration on the recovered server was answered with 200 but did not take effect: %v", f.site, err)
		}
		if raw := n.ReadFile("gcaPubKey.dat"); !bytes.Equal(raw, h.GCA.Pub[:]) {
			w.Fail("C05.register", f.site, "crash at %s: after the registration on the recovered server gcaPubKey.dat holds %d bytes that are not the registered key", f.site, len(raw))
		}
		fresh := StdAuth(h.GCA, 900+uint32(idx%50), Key(fmt.Sprintf("after-crash%d", idx%50)), 1000)
		if res := n.PostJSON("/api/v1/authorize-equipment", fresh); res.Status != 200 {
			w.Fail("C05.register", f.site, "crash at %s: the GCA registered on the recovered server cannot authorize a device: %d %s", f.site, res.Status, trim(res.Body))
		}
		model.Authorize(fresh)
		if err := model.CompareSnap(n.Snap()); err != nil {
			w.Fail("C05.register", f.site, "crash at %s: after registration and a first authorization on the recovered server: %v", f.site, err)
		}
	}
	// A second restart is idempotent.
	before := n.Snap()
	n.Stop()
	if err := n.Start(); err != nil {
		w.Fail("C05.start", f.site, "crash at %s: the recovered server does not start a second time: %v", f.site, err)
	}
	if err := restartEqual(before, n.Snap()); err != nil {
		w.Fail("C05.prefix", f.site+"/second-restart", "crash at %s: a second restart changed the state: %v", f.site, err)
	}
	w.Probe("c05.recovered")
}

func firstLine(s string) string {
	for i := 0; i < len(s); i++ {
		if s[i] == '\n' {
			return s[:i]
		}
	}
	return s
}
