//go:build !test

package sim

// C12, production-constant supplement: the parts of C12 that only do real work
// in the production build - start-up catch-up after weeks offline with the real
// managedGetWattTimeWeekData against a responding, slow or failing WattTime,
// traffic arriving while the catch-up loop is rotating, the geo-stats route
// with its calls to WattTime and NASA, and Close() within its bound.

import (
	"fmt"
	"time"

	"github.com/glowlabs-org/gca-backend/server"
)

func init() {
	Register(&Property{
		ID:   "C12",
		Run:  runC12P,
		Rule: "production-constant supplement of C12: a server that was offline for 2-8 weeks restarts (blocking catch-up with real weekly WattTime fetches, WattTime answering / slow / refusing / 500), datagrams at the window and acceptance edges are delivered inside the catch-up loop, then hostile geo-stats and statistics requests with WattTime and NASA answering or failing, then Close() within 2 x serverShutdownTime",
		Real: []string{"NewGCAServer catch-up loop with real managedGetWattTimeWeekData", "GeoStatsHandler incl. its WattTime/NASA calls and file cache", "report handler during start-up", "Close()"},
		Stub: []string{"WattTime and NASA services (harness responders: well-formed answers, refusals, 500s, delays)", "socket listeners"},
	})
}

func runC12P(m *Sim) {
	w := NewWorld(m)
	defer w.Shutdown()
	MaxTaskWait = 1 << 62
	sleepUntilP(1700352000 + int64(m.C.Int("start-s", 900000)))
	// Keyed, not drawn: background jobs reach the responders side by side.
	kd := NewKeyed(m.C, "watttime-key")
	w.WattTime = func(path string) (int, time.Duration) {
		at := time.Since(m.Start).Nanoseconds()
		d := time.Duration(0)
		if kd.Chance(1, 8, "slow", path, at) {
			d = time.Duration(1+kd.Int(30, "slow-s", path, at)) * time.Second
		}
		return kd.Weighted([]int{8, 1, 1}, "ext-fault", path, at), d
	}
	n := w.AddServer("srv0", "temp-srv0", true)
	n.Boot()
	gca := Key("gcaA")
	n.DoRegister(gca.Pub, n.Temp)
	var devs []*Device
	for i := 0; i < 1+m.C.Int("devices", 3); i++ {
		d := &Device{Role: fmt.Sprintf("dev%d", i), ID: uint32(10 + i), Key: Key(fmt.Sprintf("dev%d", i))}
		d.Auth = StdAuth(gca, d.ID, d.Key, 1<<40)
		n.DoAuthorize(d.Auth)
		devs = append(devs, d)
	}
	for i := 0; i < 5; i++ {
		d := devs[m.C.Int("dev", len(devs))]
		n.DoDatagram(SignedReport(d.Key, d.ID, Slot()-uint32(m.C.Int("back", 100)), 500).Encode())
	}
	// Offline for weeks.
	n.Stop()
	time.Sleep(time.Duration(14+m.C.Int("offline-days", 45)) * 24 * time.Hour)
	var half *server.GCAServer
	w.S.pointFn = func(node, site string, owner interface{}) {
		if site == "listen.udp" && node == n.Name {
			half, _ = owner.(*server.GCAServer)
		}
	}
	w.S.EnableSites("migrate.catchup")
	w.OnPark = func(p *Parked) {
		if p.Site != "migrate.catchup" || half == nil {
			return
		}
		m.Probe("c12p.catchup-traffic")
		m.Probe("nontrivial")
		snap := half.VerifSnapshot(true)
		d := devs[0]
		for _, slot := range []uint32{snap.Offset + 4032, snap.Offset + 4031, Slot(), Slot() + 432, Slot() - 432, snap.Offset} {
			b := SignedReport(d.Key, d.ID, slot, 500).Encode()
			t := w.Do("udp-during-catchup", func() { half.VerifHandleDatagram(b) })
			if t.Panic != nil {
				w.Fail("C12.panic", "datagram-during-catchup", "report handler panicked during start-up catch-up: %v\n%s", t.Panic, firstRepoFrames(t.Stack))
			}
		}
	}
	if err := n.Start(); err != nil {
		m.Fail("C12.start", "restart", "server does not restart after weeks offline: %v", err)
	}
	w.OnPark = nil
	w.S.DisableSites("migrate.catchup")
	w.S.pointFn = nil
	// Hostile requests against the routes that call out.
	lats := []string{"", "0", "91", "-181", "NaN", "1e400", "Inf", "abc", "38.5", "-77.0369"}
	for i := 0; i < 6+m.C.Int("requests", 20); i++ {
		var target string
		if m.C.Chance("geo", 2, 3) {
			target = "/api/v1/geo-stats?latitude=" + lats[m.C.Int("lat", len(lats))] + "&longitude=" + lats[m.C.Int("long", len(lats))]
		} else {
			off := n.Snap().Offset
			target = fmt.Sprintf("/api/v1/all-device-stats?timeslot_offset=%d", []uint32{0, off, off + 2016, off + 4032, off - 2016}[m.C.Int("tso", 5)])
		}
		res := n.Request("GET", target, nil)
		if res.Panic != nil {
			m.Fail("C12.panic", "geo-stats", "GET %s panicked: %v\n%s", target, res.Panic, firstRepoFrames(res.Stack))
		}
		m.Sig = append(m.Sig, fmt.Sprintf("g:%d", res.Status))
		if lr := n.Request("GET", "/api/v1/equipment", nil); lr.Status != 200 || lr.Panic != nil {
			m.Fail("C12.unresponsive", "after-geo-stats", "after %s the equipment endpoint answers %d", target, lr.Status)
		}
		w.Advance(time.Duration(m.C.Int("gap-s", 600)) * time.Second)
	}
	// Close within its bound.
	s := n.S
	n.Up = false
	closeTask := w.Go("close@srv0", func() { s.Close() })
	bound := 2 * server.VerifConsts().ShutdownTime
	t0 := time.Now()
	for !closeTask.Done() && time.Since(t0) <= bound {
		w.Advance(time.Second)
	}
	if !closeTask.Done() {
		m.Fail("C12.close", "production", "Close() has not returned %v of simulated time after it was called", bound)
	}
	if closeTask.Panic != nil {
		m.Fail("C12.panic", "close", "Close panicked: %v\n%s", closeTask.Panic, closeTask.Stack)
	}
	n.S = nil
}
