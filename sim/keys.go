package sim

// keys.go: deterministic key material by role name, an independent signature
// check (straight on go-ethereum, not through package glow) and an ECDSA signer
// with a caller chosen nonce, used to produce a second valid signature for the
// same content (glow.Sign is deterministic).

import (
	"crypto/ecdsa"
	"fmt"
	"math/big"
	"sync"

	"github.com/ethereum/go-ethereum/crypto"
	"github.com/glowlabs-org/gca-backend/glow"
)

// KeyPair is a named key.
type KeyPair struct {
	Role string
	Pub  glow.PublicKey
	Priv glow.PrivateKey
	ec   *ecdsa.PrivateKey
}

var (
	keyMu    sync.Mutex
	keyCache = map[string]*KeyPair{}
)

// Key returns the key pair of a role. Keys are the same in every run and
// every process; logs name keys by role, never by bytes.
func Key(role string) *KeyPair {
	keyMu.Lock()
	defer keyMu.Unlock()
	if k, ok := keyCache[role]; ok {
		return k
	}
	for ctr := 0; ; ctr++ {
		d := crypto.Keccak256([]byte(fmt.Sprintf("verif-key/%s/%d", role, ctr)))
		ec, err := crypto.ToECDSA(d)
		if err != nil {
			continue
		}
		comp := crypto.CompressPubkey(&ec.PublicKey)
		if comp[0] != 0x02 {
			continue
		}
		k := &KeyPair{Role: role, ec: ec}
		copy(k.Pub[:], comp[1:])
		copy(k.Priv[:], d)
		keyCache[role] = k
		return k
	}
}

// RoleOf names a public key for logs.
func RoleOf(pub glow.PublicKey) string {
	keyMu.Lock()
	defer keyMu.Unlock()
	for r, k := range keyCache {
		if k.Pub == pub {
			return r
		}
	}
	return fmt.Sprintf("key:%x", pub[:4])
}

// VerifySig is the harness's own signature check: keccak256 of the data,
// 64 byte r||s, x-only key with even y.
func VerifySig(pub glow.PublicKey, data []byte, sig [64]byte) bool {
	comp := append([]byte{0x02}, pub[:]...)
	pk, err := crypto.DecompressPubkey(comp)
	if err != nil {
		return false
	}
	h := crypto.Keccak256(data)
	return crypto.VerifySignature(crypto.FromECDSAPub(pk), h, sig[:])
}

// SignWithNonce produces a valid low-s signature with the given nonce. With
// different nonces the same content gets different valid signatures.
func SignWithNonce(k *KeyPair, data []byte, nonce uint64) [64]byte {
	curve := crypto.S256()
	n := curve.Params().N
	h := new(big.Int).SetBytes(crypto.Keccak256(data))
	kk := new(big.Int).SetBytes(crypto.Keccak256([]byte(fmt.Sprintf("nonce/%d", nonce)), k.Priv[:]))
	kk.Mod(kk, new(big.Int).Sub(n, big.NewInt(1)))
	kk.Add(kk, big.NewInt(1))
	rx, _ := curve.ScalarBaseMult(kk.Bytes())
	r := new(big.Int).Mod(rx, n)
	kinv := new(big.Int).ModInverse(kk, n)
	s := new(big.Int).Mul(r, k.ec.D)
	s.Add(s, h)
	s.Mul(s, kinv)
	s.Mod(s, n)
	half := new(big.Int).Rsh(n, 1)
	if s.Cmp(half) > 0 {
		s.Sub(n, s)
	}
	var sig [64]byte
	r.FillBytes(sig[:32])
	s.FillBytes(sig[32:])
	return sig
}

// MalleateSig returns the other root of an ECDSA signature (r, N-s). Both roots
// satisfy the verification equation; the repository's verifier (go-ethereum's
// VerifySignature) accepts the low root only, so the result is invalid for it.
func MalleateSig(sig [64]byte) [64]byte {
	sv := new(big.Int).SetBytes(sig[32:])
	sv.Sub(crypto.S256().Params().N, sv)
	out := sig
	sv.FillBytes(out[32:])
	return out
}
