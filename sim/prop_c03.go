//go:build test

package sim

// C03 - weekly statistics equal the accepted reports and never change once
// archived. Histories interleave reports, authorizations and bans, protocol
// clock advances of any size, simulated time passing (the real rotation and
// impact loops run), restarts with catch-up, and statistics queries for every
// kind of week offset with and without insert_false_negatives.

import "time"

func init() {
	Register(&Property{
		ID:             "C03",
		Run:            runC03,
		Rule:           "runs = (sometimes after a quiet prelude in which weeks pass, and are archived, before the GCA registers and before any device exists) generated histories of reports (incl. signed ones with the reserved readings 0 and 1), authorizations/bans (also injected right in front of the rotation thread's critical section), clock advances (1 slot to several weeks), simulated time (real rotation loop), restarts, statistics GETs (archived / live first / live second / future / misaligned, with and without insert_false_negatives); every rotation is observed inside migrateReports and checked slot by slot; non-trivial = at least one rotation and one archived-week query happened; distinct = distinct decision signatures",
		Real:           []string{"rotation loop and migrateReports", "impact-rate loop (repo's test stub for the WattTime value)", "AllDeviceStatsHandler/buildDeviceStats", "allDeviceStats.dat persistence and load", "report/authorization paths"},
		Stub:           []string{"WattTime service (repo's own test-mode stub)", "socket listeners"},
		RequiredProbes: []string{"hist.rotation", "hist.stats-archived", "hist.stats-archived-falseneg", "hist.restart", "hist.multi-rotation", "c03.ban-before-rotation", "c03.empty-week-archived", "c03.authorization-in-front-of-rotation"},
		RequiredSites:  []string{"migrate.before-shift", "migrate.after-shift", "stats.after-write", "migrate.wake", "stats.postlock", "migrate.prelock"},
	})
}

func runC03(m *Sim) {
	w := NewWorld(m)
	defer w.Shutdown()
	h := NewHist(w, "srv0", "C03")
	SetSlot(uint32(m.C.Int("now0", 3000)))
	h.Boot()
	if m.C.Chance("quiet-prelude", 1, 5) {
		// Weeks pass before the GCA registers and before any device exists:
		// empty weeks are archived (and must stay as they were, too).
		for i, k := 0, 1+m.C.Int("prelude-ops", 5); i < k; i++ {
			switch m.C.Weighted("prelude-op", 3, 3, 2, 1) {
			case 0:
				h.OpClock()
			case 1:
				h.OpTime(time.Duration(20+m.C.Int("ms", 250)) * time.Millisecond)
			case 2:
				h.OpStats()
			case 3:
				h.OpRestart(1)
			}
			h.Check("prelude")
			h.CheckArchiveImmutable("prelude")
		}
		if h.RotSeen > 0 {
			m.Probe("c03.empty-week-archived")
		}
	}
	h.Setup(1 + m.C.Int("devices", 3))
	// The rotation thread may be overtaken right in front of its critical
	// section by an authorization (a new device, a conflict that bans one): the
	// week it archives is the week as it is when the rotation takes the lock.
	w.S.EnableSites("migrate.prelock")
	w.OnPark = func(p *Parked) {
		if p.Site != "migrate.prelock" || !h.N.Up || !h.N.Model.Registered || !m.C.Chance("authorization-before-rotation", 1, 3) {
			return
		}
		// (Rotations that completed earlier in this step enter the model first.)
		h.applyRotations(false)
		h.OpAuthorize()
		m.Probe("c03.authorization-in-front-of-rotation")
	}
	nops := 10 + m.C.Int("ops", 50)
	for i := 0; i < nops; i++ {
		switch m.C.Weighted("op", 8, 2, 3, 4, 4, 1, 2) {
		case 6:
			h.OpReportBurst()
		case 0:
			h.OpReport()
		case 1:
			if h.OpAuthorize() == AuthConflict && int64(Slot())-int64(h.N.Model.Offset) > 2800 {
				m.Probe("c03.ban-before-rotation")
			}
		case 2:
			h.OpClock()
		case 3:
			h.OpTime(time.Duration(20+m.C.Int("ms", 250)) * time.Millisecond)
		case 4:
			h.OpStats()
		case 5:
			if m.C.Chance("jump-before-restart", 1, 3) {
				SetSlot(Slot() + uint32(m.C.Int("jump", 9000)))
			}
			h.OpRestart(1)
		}
		h.Check("op")
		h.CheckArchiveImmutable("after-op")
		if h.RotSeen > 0 && m.Probes["hist.stats-archived"] > 0 {
			m.Probe("nontrivial")
		}
	}
	// Let the loop finish outstanding rotations, then the final checks.
	h.OpTime(300 * time.Millisecond)
	for i := 0; i < 4; i++ {
		h.OpStats()
	}
	h.CheckArchiveImmutable("final")
	h.CheckStatsFile()
}
