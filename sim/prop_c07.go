//go:build test

package sim

// C07 - GCA registration is one-shot, gated by the temporary key, and
// irreversible. Batches of 2-8 registration requests (valid for candidate keys
// A, B, C; wrong signer; altered key; replays) are started as concurrent tasks
// and released in a seeded order, before and after restarts; authorization,
// server-authorization and migration attempts signed by the temp key, by
// losing candidates and by the winner, before and after registration.

import (
	"bytes"
	"encoding/json"
	"fmt"
	"os"
	"path/filepath"
	"strings"

	"github.com/glowlabs-org/gca-backend/glow"
	"github.com/glowlabs-org/gca-backend/server"
)

func init() {
	Register(&Property{
		ID:             "C07",
		Run:            runC07,
		Rule:           "runs = 1-4 batches of 2-8 concurrent registration requests (valid for 3 candidate keys and for degenerate ones - the temporary key itself, the all-zero key -, wrong signer, altered key, replays; in some batches every write to the key file fails; a sixth of the runs start on the empty key file a crash may leave) released in seeded orders, interleaved with restarts and with equipment / server / migration authority attempts signed by temp key, losers and winner; non-trivial = at least two valid registrations for different keys competed in one batch; distinct = distinct decision signatures",
		Real:           []string{"RegisterGCAHandler/registerGCA/saveGCAKey", "loadGCAPubkey at restart", "AuthorizeEquipmentHandler, AuthorizedServersHandlerPOST, EquipmentMigrateHandler authority checks"},
		Stub:           []string{"socket listeners; concurrency is the seeded release order of request tasks (one critical section per registration) - real parallel execution is covered by C13's race mode"},
		NotInjected:    []string{"torn or lost writes after power loss", "fsync ordering", "failing writes on files other than gcaPubKey.dat (that one is injected: disk.write-fails)", "wall clock moving backwards (not expressible in a synctest bubble)"},
		RequiredProbes: []string{"c07.competition", "c07.replay-after-success", "c07.after-restart", "c07.loser-signs", "c07.pre-registration-authority", "c07.degenerate-candidate", "c07.key-file-unwritable", "c07.empty-key-file"},
		RequiredSites:  []string{"gcakey.after-write"},
	})
}

type c07Req struct {
	kind string
	reg  server.GCARegistration
	res  HTTPResult
	task *Task
}

func runC07(m *Sim) {
	w := NewWorld(m)
	defer w.Shutdown()
	n := w.AddServer("srv0", "temp-srv0", true)
	SetSlot(uint32(m.C.Int("now0", 3000)))
	if m.C.Chance("empty-key-file-left-behind", 1, 6) {
		// What a crash between creating the key file and writing the key leaves
		// (start-up reads an empty file as "not registered"): the one
		// registration must still be possible, take effect and stay the only one.
		must(os.MkdirAll(n.Dir, 0755))
		must(os.WriteFile(filepath.Join(n.Dir, "gcaPubKey.dat"), nil, 0644))
		m.Probe("c07.empty-key-file")
	}
	n.Boot()
	cands := []*KeyPair{Key("gcaA"), Key("gcaB"), Key("gcaC")}
	dev := &Device{Role: "dev0", ID: 10, Key: Key("dev0")}

	authority := func(site string) {
		// Equipment, server and migration orders signed by every key.
		signers := append([]*KeyPair{n.Temp, n.Key}, cands...)
		for _, s := range signers {
			if !m.C.Chance("try-"+s.Role, 2, 3) {
				continue
			}
			if !n.Model.Registered {
				m.Probe("c07.pre-registration-authority")
			} else if s.Pub != n.Model.GCA && s != n.Temp && s != n.Key {
				m.Probe("c07.loser-signs")
			}
			id := dev.ID + uint32(m.C.Int("id", 3))
			a := StdAuth(s, id, Key(fmt.Sprintf("dev-%s-%d", s.Role, id)), 1000)
			n.DoAuthorize(a)
			as := SignServer(s, server.AuthorizedServer{PublicKey: Key("peer-" + s.Role).Pub, Location: "peer.sim", HttpPort: 1, TcpPort: 2, UdpPort: 3})
			n.DoAuthorizeServer(as)
			em := SignMigration(s, server.EquipmentMigration{Equipment: dev.Key.Pub, NewGCA: Key("gcaNew").Pub, NewShortID: 5})
			n.DoMigrate(em)
			// A genuinely signed structure altered afterwards (signature kept).
			em2 := em
			em2.NewShortID++
			n.DoMigrate(em2)
			as2 := as
			as2.HttpPort++
			n.DoAuthorizeServer(as2)
			a2 := a
			a2.Capacity++
			n.DoAuthorize(a2)
			// An order that names its own signer as the new GCA: only the
			// current GCA's signature counts, never the new one's.
			n.DoMigrate(SignMigration(s, server.EquipmentMigration{Equipment: Key("dev-self").Pub, NewGCA: s.Pub, NewShortID: 6}))
		}
		n.Check("C07.gate", site)
		n.CheckServers("C07.authority")
	}
	authority("pre")

	batches := 1 + m.C.Int("batches", 4)
	for b := 0; b < batches; b++ {
		k := 2 + m.C.Int("batch-size", 7)
		var reqs []*c07Req
		valid := map[glow.PublicKey]bool{}
		for i := 0; i < k; i++ {
			r := &c07Req{}
			c := cands[m.C.Int("cand", 3)]
			if m.C.Chance("degenerate-candidate", 1, 8) {
				// Valid but degenerate: the temporary key names itself, or the
				// all-zero key, as the GCA (signed by the temporary key).
				r.kind = "valid-degenerate"
				k := n.Temp.Pub
				if m.C.Chance("zero-key", 1, 2) {
					k = glow.PublicKey{}
				}
				r.reg = server.GCARegistration{GCAKey: k}
				r.reg.Signature = glow.Sign(RegistrationSigningBytes(k), n.Temp.Priv)
				valid[k] = true
				m.Probe("c07.degenerate-candidate")
				reqs = append(reqs, r)
				continue
			}
			switch m.C.Weighted("kind", 5, 1, 1, 1) {
			case 0:
				r.kind = "valid-" + c.Role
				r.reg = server.GCARegistration{GCAKey: c.Pub}
				r.reg.Signature = glow.Sign(RegistrationSigningBytes(c.Pub), n.Temp.Priv)
				valid[c.Pub] = true
			case 1:
				r.kind = "self-signed-" + c.Role
				r.reg = server.GCARegistration{GCAKey: c.Pub}
				r.reg.Signature = glow.Sign(RegistrationSigningBytes(c.Pub), c.Priv)
			case 2:
				o := cands[(m.C.Int("other", 2)+1+indexOf(cands, c))%3]
				r.kind = "altered-key-" + c.Role
				r.reg = server.GCARegistration{GCAKey: o.Pub}
				r.reg.Signature = glow.Sign(RegistrationSigningBytes(c.Pub), n.Temp.Priv)
			case 3:
				r.kind = "server-signed-" + c.Role
				r.reg = server.GCARegistration{GCAKey: c.Pub}
				r.reg.Signature = glow.Sign(RegistrationSigningBytes(c.Pub), n.Key.Priv)
			}
			reqs = append(reqs, r)
		}
		if len(valid) >= 2 {
			m.Probe("c07.competition")
			m.Probe("nontrivial")
		}
		if n.Model.Registered {
			m.Probe("c07.replay-after-success")
		}
		// Disk fault: for the time of this batch the key file cannot be written
		// (a directory sits at its path: every write system call on it fails).
		// No registration may succeed, and - checked by authority() below - a
		// candidate refused this way has gained nothing.
		diskFault := false
		keyPath := filepath.Join(n.Dir, "gcaPubKey.dat")
		if !n.Model.Registered && m.C.Chance("key-file-unwritable", 1, 6) {
			if err := os.Mkdir(keyPath, 0755); err == nil {
				diskFault = true
				m.Fault("disk.write-fails")
				m.Probe("c07.key-file-unwritable")
			}
		}
		mark := len(m.ReleaseLog)
		for i, r := range reqs {
			body, _ := json.Marshal(r.reg)
			r.task = n.RequestAsync(fmt.Sprintf("reg%d", i), "POST", "/api/v1/register-gca", body, &r.res)
		}
		for _, r := range reqs {
			m.Finish(r.task)
		}
		// The requests executed in release order (one critical section each).
		order := []*c07Req{}
		for _, e := range m.ReleaseLog[mark:] {
			for _, r := range reqs {
				if strings.HasPrefix(e, r.task.Name+"@task.start") {
					order = append(order, r)
				}
			}
		}
		if len(order) != len(reqs) {
			panic(fmt.Sprintf("harness: %d of %d registration tasks seen in the release log", len(order), len(reqs)))
		}
		wins := 0
		for _, r := range order {
			if r.res.Panic != nil {
				m.Fail("C07.panic", "register", "registration handler panicked: %v", r.res.Panic)
			}
			if diskFault {
				if r.res.Status == 200 {
					m.Fail("C07.once", "disk-fault", "registration %s answered 200 although the key file could not be written", r.kind)
				}
				m.Sig = append(m.Sig, "reg-diskfault:"+r.kind)
				continue
			}
			want := n.Model.Register(r.reg.GCAKey, r.reg.Signature)
			if (r.res.Status == 200) != want {
				m.Fail("C07.once", r.kind, "registration %s: status %d, sequential rules in execution order say success=%v", r.kind, r.res.Status, want)
			}
			if r.res.Status == 200 {
				wins++
			}
			m.Sig = append(m.Sig, "reg:"+r.kind)
		}
		if wins > 1 {
			m.Fail("C07.once", "batch", "%d registrations of one batch succeeded", wins)
		}
		if diskFault {
			if err := os.Remove(keyPath); err != nil {
				panic("harness: cannot remove the fault directory: " + err.Error())
			}
		}
		c07Key(w, n)
		authority("post-batch")
		if m.C.Chance("restart", 1, 3) {
			n.Stop()
			if err := n.Start(); err != nil {
				m.Fail("C07.start", "restart", "server does not restart: %v", err)
			}
			n.Model.Servers = nil // not persisted by design
			n.Model.Migrations = map[glow.PublicKey]server.EquipmentMigration{}
			m.Probe("c07.after-restart")
			c07Key(w, n)
			n.Check("C07.immutable", "restart")
		}
	}
	authority("final")
}

func indexOf(ks []*KeyPair, k *KeyPair) int {
	for i, x := range ks {
		if x == k {
			return i
		}
	}
	return 0
}

// c07Key checks that the key file and the snapshot hold the winner.
func c07Key(w *World, n *ServerNode) {
	s := n.Snap()
	file := n.ReadFile("gcaPubKey.dat")
	if !n.Model.Registered {
		// (An empty key file is what a crash may leave and what start-up reads as
		// "not registered": it holds no key.)
		if s.GCAAvailable || len(file) != 0 {
			w.Fail("C07.once", "key", "no registration succeeded but the server holds a GCA key (available=%v, file=%d bytes)", s.GCAAvailable, len(file))
		}
		return
	}
	if !s.GCAAvailable || s.GCAKey != n.Model.GCA {
		w.Fail("C07.immutable", "key", "server holds key %s, the accepted registration was for %s", RoleOf(s.GCAKey), RoleOf(n.Model.GCA))
	}
	if !bytes.Equal(file, n.Model.GCA[:]) {
		w.Fail("C07.immutable", "file", "gcaPubKey.dat does not hold the accepted key")
	}
}
