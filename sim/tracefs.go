//go:build test

package sim

// tracefs.go - system-call-boundary crash states from an strace log.
//
// The repository writes its files with direct os calls (no storage seam), so
// the observation points of 3.5 exist only where a hook was placed. For the
// crash property the worker can additionally be run under strace (-f -y -xx,
// file-mutating system calls only, see cmd/check): every completed system call
// that changes a file below a node's directory is then known in order and with
// its data, and the disk exactly as a process kill between two system calls
// leaves it (process-crash model: completed calls survive) is rebuilt by
// re-applying a prefix of that list. Code without hooks (and code a change
// adds) is covered at the same granularity.

import (
	"bufio"
	"fmt"
	"io"
	"os"
	"path/filepath"
	"sort"
	"strconv"
	"strings"
)

// FSOp is one completed file-mutating system call.
type FSOp struct {
	Kind  string `json:"kind"` // create, trunc, write, rename, unlink, rmdir, mkdir, ftruncate, marker
	Path  string `json:"path"` // relative to the traced root
	Path2 string `json:"path2,omitempty"`
	Off   int64  `json:"off,omitempty"` // write: offset, -1 = append; ftruncate: length
	Data  []byte `json:"data,omitempty"`
}

func (o FSOp) String() string {
	switch o.Kind {
	case "write":
		if o.Off < 0 {
			return fmt.Sprintf("append %d bytes to %s", len(o.Data), o.Path)
		}
		return fmt.Sprintf("write %d bytes at %d to %s", len(o.Data), o.Off, o.Path)
	case "rename":
		return fmt.Sprintf("rename %s -> %s", o.Path, o.Path2)
	case "ftruncate":
		return fmt.Sprintf("truncate %s to %d", o.Path, o.Off)
	}
	return o.Kind + " " + o.Path
}

// unquoteStrace decodes a C string as strace prints it (plain or \x.. / \n
// style escapes), without the surrounding quotes.
func unquoteStrace(s string) []byte {
	out := make([]byte, 0, len(s)/4+1)
	for i := 0; i < len(s); i++ {
		c := s[i]
		if c != '\\' || i+1 >= len(s) {
			out = append(out, c)
			continue
		}
		i++
		switch s[i] {
		case 'x':
			j := i + 1
			for j < len(s) && j < i+3 && isHexDigit(s[j]) {
				j++
			}
			if j > i+1 {
				v, _ := strconv.ParseUint(s[i+1:j], 16, 8)
				out = append(out, byte(v))
				i = j - 1
			} else {
				out = append(out, 'x')
			}
		case 'n':
			out = append(out, '\n')
		case 't':
			out = append(out, '\t')
		case 'r':
			out = append(out, '\r')
		case 'v':
			out = append(out, '\v')
		case 'f':
			out = append(out, '\f')
		case '"':
			out = append(out, '"')
		case '\\':
			out = append(out, '\\')
		default:
			// octal \NNN
			if s[i] >= '0' && s[i] <= '7' {
				j := i
				v := 0
				for j < len(s) && j < i+3 && s[j] >= '0' && s[j] <= '7' {
					v = v*8 + int(s[j]-'0')
					j++
				}
				out = append(out, byte(v))
				i = j - 1
			} else {
				out = append(out, s[i])
			}
		}
	}
	return out
}

func isHexDigit(c byte) bool {
	return c >= '0' && c <= '9' || c >= 'a' && c <= 'f' || c >= 'A' && c <= 'F'
}

// splitArgs splits the argument list of an strace line at top-level commas
// (strings and <...> annotations may contain commas).
func splitArgs(s string) []string {
	var args []string
	depth, inStr := 0, false
	start := 0
	for i := 0; i < len(s); i++ {
		c := s[i]
		switch {
		case inStr:
			if c == '\\' {
				i++
			} else if c == '"' {
				inStr = false
			}
		case c == '"':
			inStr = true
		case c == '<' || c == '(' || c == '[' || c == '{':
			depth++
		case c == '>' || c == ')' || c == ']' || c == '}':
			if depth > 0 {
				depth--
			}
		case c == ',' && depth == 0:
			args = append(args, strings.TrimSpace(s[start:i]))
			start = i + 1
		}
	}
	if strings.TrimSpace(s[start:]) != "" {
		args = append(args, strings.TrimSpace(s[start:]))
	}
	return args
}

// strArg returns the bytes of a quoted string argument.
func strArg(a string) ([]byte, bool) {
	a = strings.TrimSuffix(strings.TrimSpace(a), "...")
	if len(a) < 2 || a[0] != '"' || a[len(a)-1] != '"' {
		return nil, false
	}
	return unquoteStrace(a[1 : len(a)-1]), true
}

// fdPath extracts the path annotation of an fd argument ("9</dev/shm/x>").
func fdPath(a string) (fd int, path string, ok bool) {
	i := strings.IndexByte(a, '<')
	if i < 0 || !strings.HasSuffix(a, ">") {
		return 0, "", false
	}
	fd, err := strconv.Atoi(a[:i])
	if err != nil {
		return 0, "", false
	}
	p := string(unquoteStrace(a[i+1 : len(a)-1]))
	p = strings.TrimSuffix(p, " (deleted)")
	return fd, p, true
}

type traceFD struct {
	path   string
	append bool
	pos    int64
}

// ParseStrace reads an strace log and returns the completed file-mutating
// calls below root (paths relative to root) in order. markRoot is a directory
// whose mkdir calls are returned as markers (Kind "marker", Path = name).
func ParseStrace(r io.Reader, root, markRoot string) ([]FSOp, error) {
	root = filepath.Clean(root)
	rel := func(p string) (string, bool) {
		p = filepath.Clean(p)
		if p == root {
			return ".", true
		}
		if strings.HasPrefix(p, root+"/") {
			return p[len(root)+1:], true
		}
		return "", false
	}
	var ops []FSOp
	fds := map[int]*traceFD{}
	pending := map[string]string{} // pid -> unfinished line
	br := bufio.NewReaderSize(r, 1<<20)
	for {
		line, err := br.ReadString('\n')
		if len(line) > 0 {
			line = strings.TrimRight(strings.TrimLeft(line, "\x00"), "\n")
			if e := parseStraceLine(line, pending, fds, rel, markRoot, &ops); e != nil {
				return ops, e
			}
		}
		if err == io.EOF {
			break
		}
		if err != nil {
			return ops, err
		}
	}
	return ops, nil
}

func parseStraceLine(line string, pending map[string]string, fds map[int]*traceFD, rel func(string) (string, bool), markRoot string, ops *[]FSOp) error {
	sp := strings.IndexByte(line, ' ')
	if sp <= 0 {
		return nil
	}
	pid := line[:sp]
	rest := strings.TrimLeft(line[sp:], " ")
	if strings.HasSuffix(rest, "<unfinished ...>") {
		pending[pid] = strings.TrimSpace(strings.TrimSuffix(rest, "<unfinished ...>"))
		return nil
	}
	if strings.HasPrefix(rest, "<... ") {
		i := strings.Index(rest, "resumed>")
		if i < 0 {
			return nil
		}
		head, ok := pending[pid]
		if !ok {
			return nil
		}
		delete(pending, pid)
		// strace pads the tail of a resumed call (`<... openat resumed>)     = 8`):
		// bring it back to the form of an uninterrupted line (`...) = 8`).
		tail := strings.TrimLeft(rest[i+len("resumed>"):], " ")
		if k := strings.Index(tail, ")"); k >= 0 {
			after := strings.TrimLeft(tail[k+1:], " ")
			if strings.HasPrefix(after, "= ") {
				tail = tail[:k+1] + " " + after
			}
		}
		rest = head + tail
	}
	if strings.HasPrefix(rest, "+++") || strings.HasPrefix(rest, "---") {
		return nil
	}
	op := strings.IndexByte(rest, '(')
	eq := strings.LastIndex(rest, ") = ")
	if op <= 0 || eq < op {
		// Nothing is dropped silently: a line that looks like a call but has no
		// result in the expected place is a parser gap, not a call to skip. (The
		// first line after the truncation at the start of a run may be cut.)
		if op > 0 && strings.Contains(rest, ")") && strings.Contains(rest, "= ") && !strings.HasPrefix(rest, "<") {
			return fmt.Errorf("strace: cannot parse %s", firstN(line, 200))
		}
		return nil
	}
	name := rest[:op]
	args := splitArgs(rest[op+1 : eq])
	retS := strings.TrimSpace(rest[eq+4:])
	if strings.HasPrefix(retS, "-1") || strings.HasPrefix(retS, "?") {
		return nil
	}
	retFirst := retS
	if i := strings.IndexAny(retS, " <"); i > 0 {
		retFirst = retS[:i]
	}
	ret, _ := strconv.ParseInt(retFirst, 0, 64)
	pathArg := func(i int) (string, bool) {
		if i >= len(args) {
			return "", false
		}
		b, ok := strArg(args[i])
		return string(b), ok
	}
	switch name {
	case "openat", "open", "creat":
		pi, fi := 1, 2
		if name == "open" {
			pi, fi = 0, 1
		}
		if name == "creat" {
			pi, fi = 0, -1
		}
		p, ok := pathArg(pi)
		if !ok {
			return nil
		}
		flags := "O_CREAT|O_WRONLY|O_TRUNC"
		if fi >= 0 && fi < len(args) {
			flags = args[fi]
		}
		r, under := rel(p)
		fd := int(ret)
		if !under {
			delete(fds, fd)
			return nil
		}
		fds[fd] = &traceFD{path: r, append: strings.Contains(flags, "O_APPEND")}
		if strings.Contains(flags, "O_CREAT") {
			*ops = append(*ops, FSOp{Kind: "create", Path: r})
		}
		if strings.Contains(flags, "O_TRUNC") {
			*ops = append(*ops, FSOp{Kind: "trunc", Path: r})
		}
	case "write", "pwrite64":
		if len(args) < 3 {
			return nil
		}
		fd, p, ok := fdPath(args[0])
		if !ok {
			return nil
		}
		r, under := rel(p)
		if !under {
			return nil
		}
		data, ok := strArg(args[1])
		if !ok {
			return fmt.Errorf("strace: cannot decode the data of %s", firstN(line, 200))
		}
		if int64(len(data)) < ret {
			return fmt.Errorf("strace: %d bytes of data logged for a write of %d bytes (string limit too small)", len(data), ret)
		}
		data = data[:ret]
		f := fds[fd]
		if f == nil || f.path != r {
			f = &traceFD{path: r}
			fds[fd] = f
		}
		off := f.pos
		if name == "pwrite64" && len(args) >= 4 {
			off, _ = strconv.ParseInt(args[3], 0, 64)
		} else if f.append {
			off = -1
		} else {
			f.pos += ret
		}
		*ops = append(*ops, FSOp{Kind: "write", Path: r, Off: off, Data: data})
	case "lseek":
		if fd, _, ok := fdPath(args[0]); ok {
			if f := fds[fd]; f != nil {
				f.pos = ret
			}
		}
	case "ftruncate":
		if len(args) < 2 {
			return nil
		}
		_, p, ok := fdPath(args[0])
		if !ok {
			return nil
		}
		if r, under := rel(p); under {
			n, _ := strconv.ParseInt(args[1], 0, 64)
			*ops = append(*ops, FSOp{Kind: "ftruncate", Path: r, Off: n})
		}
	case "mkdirat", "mkdir":
		pi := 1
		if name == "mkdir" {
			pi = 0
		}
		p, ok := pathArg(pi)
		if !ok {
			return nil
		}
		if markRoot != "" && strings.HasPrefix(filepath.Clean(p), filepath.Clean(markRoot)+"/") {
			*ops = append(*ops, FSOp{Kind: "marker", Path: filepath.Base(p)})
			return nil
		}
		if r, under := rel(p); under {
			*ops = append(*ops, FSOp{Kind: "mkdir", Path: r})
		}
	case "unlinkat", "unlink", "rmdir":
		pi := 1
		if name != "unlinkat" {
			pi = 0
		}
		p, ok := pathArg(pi)
		if !ok {
			return nil
		}
		if r, under := rel(p); under {
			kind := "unlink"
			if name == "rmdir" || (name == "unlinkat" && len(args) > 2 && strings.Contains(args[2], "AT_REMOVEDIR")) {
				kind = "rmdir"
			}
			*ops = append(*ops, FSOp{Kind: kind, Path: r})
		}
	case "renameat", "renameat2", "rename":
		a, b := 1, 3
		if name == "rename" {
			a, b = 0, 1
		}
		p1, ok1 := pathArg(a)
		p2, ok2 := pathArg(b)
		if !ok1 || !ok2 {
			return nil
		}
		r1, u1 := rel(p1)
		r2, u2 := rel(p2)
		switch {
		case u1 && u2:
			*ops = append(*ops, FSOp{Kind: "rename", Path: r1, Path2: r2})
		case u1:
			*ops = append(*ops, FSOp{Kind: "unlink", Path: r1})
		case u2:
			return fmt.Errorf("strace: a file was renamed into the traced directory from outside (%s)", p1)
		}
	}
	return nil
}

func firstN(s string, n int) string {
	if len(s) > n {
		return s[:n]
	}
	return s
}

// MemFS is the disk state rebuilt from a prefix of the operations.
type MemFS struct {
	Files map[string][]byte
	Dirs  map[string]bool
}

func NewMemFS() *MemFS { return &MemFS{Files: map[string][]byte{}, Dirs: map[string]bool{}} }

// Apply applies one operation.
func (m *MemFS) Apply(o FSOp) {
	switch o.Kind {
	case "create":
		if _, ok := m.Files[o.Path]; !ok {
			m.Files[o.Path] = []byte{}
		}
	case "trunc":
		m.Files[o.Path] = []byte{}
	case "write":
		b := m.Files[o.Path]
		off := o.Off
		if off < 0 {
			off = int64(len(b))
		}
		if need := off + int64(len(o.Data)); int64(len(b)) < need {
			b = append(b, make([]byte, need-int64(len(b)))...)
		}
		copy(b[off:], o.Data)
		m.Files[o.Path] = b
	case "ftruncate":
		b := m.Files[o.Path]
		if int64(len(b)) > o.Off {
			b = b[:o.Off]
		} else {
			b = append(b, make([]byte, o.Off-int64(len(b)))...)
		}
		m.Files[o.Path] = b
	case "unlink":
		delete(m.Files, o.Path)
	case "rmdir":
		delete(m.Dirs, o.Path)
	case "mkdir":
		m.Dirs[o.Path] = true
	case "rename":
		if b, ok := m.Files[o.Path]; ok {
			m.Files[o.Path2] = b
			delete(m.Files, o.Path)
		} else if m.Dirs[o.Path] {
			// directory rename: move everything below it
			delete(m.Dirs, o.Path)
			m.Dirs[o.Path2] = true
			for p, b := range m.Files {
				if strings.HasPrefix(p, o.Path+"/") {
					m.Files[o.Path2+p[len(o.Path):]] = b
					delete(m.Files, p)
				}
			}
		}
	}
}

// Materialise writes the state below dst (which is created).
func (m *MemFS) Materialise(dst string, skip func(string) bool) error {
	if err := os.MkdirAll(dst, 0755); err != nil {
		return err
	}
	var dirs []string
	for d := range m.Dirs {
		dirs = append(dirs, d)
	}
	sort.Strings(dirs)
	for _, d := range dirs {
		if err := os.MkdirAll(filepath.Join(dst, d), 0755); err != nil {
			return err
		}
	}
	var files []string
	for f := range m.Files {
		files = append(files, f)
	}
	sort.Strings(files)
	for _, f := range files {
		if skip != nil && skip(f) {
			continue
		}
		p := filepath.Join(dst, f)
		if err := os.MkdirAll(filepath.Dir(p), 0755); err != nil {
			return err
		}
		if err := os.WriteFile(p, m.Files[f], 0644); err != nil {
			return err
		}
	}
	return nil
}
