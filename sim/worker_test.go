package sim

import (
	"encoding/json"
	"fmt"
	"os"
	"testing"
)

func TestWorker(t *testing.T) { WorkerMain(t) }

// TestDescribe prints the metadata of a registered property for the parent.
func TestDescribe(t *testing.T) {
	p := registry[os.Getenv("VERIF_PROP")]
	if p == nil {
		t.Skip("not registered")
	}
	b, _ := json.Marshal(map[string]interface{}{
		"id": p.ID, "flavour": flavourName, "rule": p.Rule, "real": p.Real, "stub": p.Stub,
		"assumptions": p.Assumptions, "required_probes": p.RequiredProbes, "level": p.Level, "not_injected": p.NotInjected, "required_sites": p.RequiredSites,
	})
	fmt.Printf("DESCRIBE %s\n", b)
}
