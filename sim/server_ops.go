package sim

// server_ops.go: operations applied to the real server and to the reference
// model together, with the comparison that every server-side property shares.

import (
	"encoding/binary"
	"encoding/hex"
	"encoding/json"
	"fmt"
	"os"
	"path/filepath"
	"reflect"
	"sort"
	"strings"
	"time"

	"github.com/glowlabs-org/gca-backend/glow"
	"github.com/glowlabs-org/gca-backend/server"
)

// Device is a simulated monitoring device known to the harness.
type Device struct {
	Role string
	ID   uint32
	Key  *KeyPair
	Auth glow.EquipmentAuthorization
}

// StdAuth builds a GCA-signed authorization for a device.
func StdAuth(gca *KeyPair, id uint32, devKey *KeyPair, capacity uint64) glow.EquipmentAuthorization {
	a := glow.EquipmentAuthorization{
		ShortID:    id,
		PublicKey:  devKey.Pub,
		Latitude:   38.5 + float64(id),
		Longitude:  -77.25 - float64(id),
		Capacity:   capacity,
		Debt:       11,
		Expiration: 100000000,
	}
	return SignAuth(gca, a)
}

// Boot starts the node and creates its model (fresh directory).
func (n *ServerNode) Boot() {
	if err := n.Start(); err != nil {
		n.W.Fail(n.W.Prop+".start", "first-start", "server does not start on a fresh directory: %v", err)
	}
	if n.Model == nil {
		n.Model = NewServerModel(n.Temp.Pub)
	}
}

// DoRegister registers a GCA on real and model and compares the outcome.
func (n *ServerNode) DoRegister(gca glow.PublicKey, signer *KeyPair) bool {
	res := n.Register(gca, signer)
	reg := server.GCARegistration{GCAKey: gca}
	reg.Signature = glow.Sign(RegistrationSigningBytes(gca), signer.Priv)
	want := n.Model.Register(gca, reg.Signature)
	if (res.Status == 200) != want {
		n.W.Fail(n.W.Prop+".register", "register-gca", "registration of %s signed by %s: status %d, model says success=%v", RoleOf(gca), signer.Role, res.Status, want)
	}
	return want
}

// DoAuthorize submits an authorization through the JSON endpoint on real and
// model and compares the outcome class.
func (n *ServerNode) DoAuthorize(a glow.EquipmentAuthorization) AuthResult {
	res := n.PostJSON("/api/v1/authorize-equipment", a)
	want := n.Model.Authorize(a)
	// The answer to an identical resubmission and to a conflicting one is not
	// part of any property (only their effect on the state is); a new valid
	// authorization must be accepted and an invalid one refused.
	ok := res.Status == 200
	if (want == AuthNew && !ok) || (want == AuthRefused && ok) {
		n.W.Fail(n.W.Prop+".authorize", want.String(), "authorization for id %d: status %d (%s), model says %s", a.ShortID, res.Status, trim(res.Body), want)
	}
	return want
}

func trim(b []byte) string {
	s := string(b)
	if len(s) > 120 {
		s = s[:120]
	}
	return s
}

// DoDatagram delivers a datagram to real and model.
func (n *ServerNode) DoDatagram(b []byte) (changed bool, why string) {
	now := Slot()
	n.Datagram(b)
	changed, why = n.Model.Deliver(b, now)
	n.W.Sig = append(n.W.Sig, "d:"+why)
	return
}

// Check compares the real server with the model and fails with rule.
func (n *ServerNode) Check(rule, site string) *server.VerifSnap {
	s := n.Snap()
	if err := n.Model.CompareSnap(s); err != nil {
		n.W.Fail(rule, site, "%v", err)
	}
	n.W.NoteState(n.Model.Digest())
	return s
}

// StdSetup boots a server, registers gcaA and authorizes the given devices.
func (w *World) StdSetup(name string, caps []uint64) (*ServerNode, *KeyPair, []*Device) {
	n := w.AddServer(name, "temp-"+name, true)
	n.Boot()
	gca := Key("gcaA")
	n.DoRegister(gca.Pub, n.Temp)
	var devs []*Device
	for i, c := range caps {
		d := &Device{Role: fmt.Sprintf("dev%d", i), ID: uint32(10 + i), Key: Key(fmt.Sprintf("dev%d", i))}
		d.Auth = StdAuth(gca, d.ID, d.Key, c)
		n.DoAuthorize(d.Auth)
		devs = append(devs, d)
	}
	return n, gca, devs
}

// Shutdown stops every node and client of the world and releases whatever is
// still parked, so that the bubble can end.
func (w *World) Shutdown() {
	if r := recover(); r != nil {
		// A violation (or a harness panic) is on its way out: the worker
		// reports it and exits, no clean-up of the possibly wedged world.
		panic(r)
	}
	w.Phase = "shutdown"
	w.OnPark = nil
	w.fwdMu.Lock()
	w.silentDone = true
	if w.Silent != nil {
		close(w.Silent)
		w.Silent = nil
	}
	w.fwdMu.Unlock()
	for _, name := range sortedKeys(w.Clients) {
		w.Clients[name].Stop()
	}
	for _, name := range sortedKeys(w.Servers) {
		w.Servers[name].Stop()
	}
	for _, p := range w.S.Parked(true) {
		w.S.Unhold(p.Name)
	}
	w.Settle()
	// The test build leaves a 3 second watchdog goroutine behind every
	// Close(); a bubble may only end when no goroutine is left.
	time.Sleep(4 * time.Second)
	w.Settle()
}

func sortedKeys[V any](m map[string]V) []string {
	var ks []string
	for k := range m {
		ks = append(ks, k)
	}
	sortStrings(ks)
	return ks
}

// StatsResult is a decoded all-device-stats reply.
func (n *ServerNode) GetStats(offset uint32, falseNeg bool) (*server.AllDeviceStats, int) {
	target := fmt.Sprintf("/api/v1/all-device-stats?timeslot_offset=%d", offset)
	if falseNeg {
		target += "&insert_false_negatives=true"
	}
	res := n.Get(target)
	n.LastBody = trim(res.Body)
	if res.Status != 200 {
		return nil, res.Status
	}
	// The served JSON carries power values as signed integers.
	var js struct {
		Devices []struct {
			PowerOutputs []int64
			PublicKey    glow.PublicKey
			ImpactRates  []float64
		}
		TimeslotOffset uint32
		Signature      glow.Signature
	}
	if err := json.Unmarshal(res.Body, &js); err != nil {
		n.W.Fail(n.W.Prop+".decode", "all-device-stats", "reply does not decode: %v", err)
	}
	ads := &server.AllDeviceStats{TimeslotOffset: js.TimeslotOffset, Signature: js.Signature}
	for _, d := range js.Devices {
		if len(d.PowerOutputs) != 2016 || len(d.ImpactRates) != 2016 {
			n.W.Fail(n.W.Prop+".decode", "all-device-stats", "device record with %d values and %d rates", len(d.PowerOutputs), len(d.ImpactRates))
		}
		var ds server.DeviceStats
		ds.PublicKey = d.PublicKey
		for i, v := range d.PowerOutputs {
			ds.PowerOutputs[i] = uint64(v)
		}
		copy(ds.ImpactRates[:], d.ImpactRates)
		ads.Devices = append(ads.Devices, ds)
	}
	return ads, 200
}

// FileSize returns the size of a file in the node's directory (-1 if absent).
func (n *ServerNode) FileSize(name string) int64 {
	st, err := os.Stat(filepath.Join(n.Dir, name))
	if err != nil {
		return -1
	}
	return st.Size()
}

func (n *ServerNode) ReadFile(name string) []byte {
	b, err := os.ReadFile(filepath.Join(n.Dir, name))
	if err != nil {
		return nil
	}
	return b
}

func sortStrings(s []string) { sort.Strings(s) }

// ReportMigrationPeriod is the period of the rotation loop in this build.
var ReportMigrationPeriod = server.ReportMigrationFrequency

const msec = time.Millisecond

func errorf(format string, a ...interface{}) error { return fmt.Errorf(format, a...) }

// GetRecent fetches the recent-reports endpoint for a device key and returns
// the per-slot power values.
func (n *ServerNode) GetRecent(pub glow.PublicKey) (vals [4032]uint64, status int) {
	res := n.Get("/api/v1/recent-reports?publicKey=" + hex.EncodeToString(pub[:]))
	if res.Status != 200 {
		return vals, res.Status
	}
	var rr struct {
		Reports []struct {
			ShortID     uint32
			Timeslot    uint32
			PowerOutput uint64
		}
	}
	if err := json.Unmarshal(res.Body, &rr); err != nil || len(rr.Reports) != 4032 {
		n.W.Fail(n.W.Prop+".decode", "recent-reports", "reply does not decode (%v, %d reports)", err, len(rr.Reports))
	}
	for i, r := range rr.Reports {
		vals[i] = r.PowerOutput
	}
	return vals, 200
}

// snapDiff names the first fields in which two snapshots differ.
func snapDiff(a, b *server.VerifSnap) string {
	var d []string
	add := func(name string, x, y interface{}) {
		if !reflect.DeepEqual(x, y) {
			d = append(d, name)
		}
	}
	add("offset", a.Offset, b.Offset)
	add("gca-key", a.GCAKey, b.GCAKey)
	add("gca-available", a.GCAAvailable, b.GCAAvailable)
	add("equipment", a.Equipment, b.Equipment)
	add("public-key-index", a.ShortIDs, b.ShortIDs)
	add("bans", a.Bans, b.Bans)
	add("slot-records", a.Reports, b.Reports)
	add("impact-rates", a.Rates, b.Rates)
	add("recent-reports", a.Recent, b.Recent)
	add("recent-authorizations", a.RecentAuths, b.RecentAuths)
	add("archived-weeks", a.HistoryHashes, b.HistoryHashes)
	add("server-list", a.Servers, b.Servers)
	add("migrations", a.Migrations, b.Migrations)
	if len(d) == 0 {
		return "no difference in the listed fields"
	}
	return "differs in " + strings.Join(d, ", ")
}

// DoAuthorizeServer posts a server authorization to real and model.
func (n *ServerNode) DoAuthorizeServer(as server.AuthorizedServer) bool {
	res := n.PostJSON("/api/v1/authorized-servers", as)
	want := n.Model.AuthorizeServer(as)
	if (res.Status == 200) != want {
		n.W.Fail(n.W.Prop+".srv-model", "post", "server authorization for %s (banned=%v): status %d, model accepts=%v", RoleOf(as.PublicKey), as.Banned, res.Status, want)
	}
	return want
}

// DoMigrate posts a migration order to real and model.
func (n *ServerNode) DoMigrate(em server.EquipmentMigration) bool {
	res := n.PostJSON("/api/v1/equipment-migrate", em)
	want := n.Model.Migrate(em)
	if (res.Status == 200) != want {
		n.W.Fail(n.W.Prop+".authority", "migrate", "migration order for %s: status %d, model accepts=%v", RoleOf(em.Equipment), res.Status, want)
	}
	return want
}

// GetServers fetches the authorized server list.
func (n *ServerNode) GetServers() []server.AuthorizedServer {
	res := n.Get("/api/v1/authorized-servers")
	if res.Status != 200 {
		n.W.Fail(n.W.Prop+".srv-model", "get", "authorized-servers not served: %d", res.Status)
	}
	var r server.AuthorizedServersResponse
	if err := json.Unmarshal(res.Body, &r); err != nil {
		n.W.Fail(n.W.Prop+".decode", "authorized-servers", "reply does not decode: %v", err)
	}
	return r.AuthorizedServers
}

// CheckServers compares the served list with the model list (order kept).
func (n *ServerNode) CheckServers(rule string) {
	got := n.GetServers()
	want := n.Model.Servers
	if len(got) != len(want) {
		n.W.Fail(rule, "list", "server list has %d entries, model %d", len(got), len(want))
	}
	for i := range got {
		if !reflect.DeepEqual(got[i], want[i]) {
			n.W.Fail(rule, "list", "server list entry %d (%s) differs from the model: got banned=%v loc=%q ports=%d/%d/%d, want banned=%v loc=%q ports=%d/%d/%d", i, RoleOf(got[i].PublicKey), got[i].Banned, got[i].Location, got[i].HttpPort, got[i].TcpPort, got[i].UdpPort, want[i].Banned, want[i].Location, want[i].HttpPort, want[i].TcpPort, want[i].UdpPort)
		}
	}
	s := n.Snap()
	if len(s.Migrations) != len(n.Model.Migrations) {
		n.W.Fail(n.W.Prop+".authority", "migrations", "%d migration orders stored, model %d", len(s.Migrations), len(n.Model.Migrations))
	}
	for k, v := range n.Model.Migrations {
		if !reflect.DeepEqual(s.Migrations[k], v) {
			n.W.Fail(n.W.Prop+".authority", "migrations", "stored migration order for %s differs from the accepted one", RoleOf(k))
		}
	}
}

// GetEquipment fetches the equipment list.
func (n *ServerNode) GetEquipment() map[uint32]glow.EquipmentAuthorization {
	res := n.Get("/api/v1/equipment")
	if res.Status != 200 {
		n.W.Fail(n.W.Prop+".model", "equipment", "equipment list not served: %d", res.Status)
	}
	var r server.EquipmentResponse
	if err := json.Unmarshal(res.Body, &r); err != nil {
		n.W.Fail(n.W.Prop+".decode", "equipment", "reply does not decode: %v", err)
	}
	return r.EquipmentDetails
}

// GetRecentStatus fetches recent-reports for a key and returns the status only.
func (n *ServerNode) GetRecentStatus(pub glow.PublicKey) int {
	return n.Get("/api/v1/recent-reports?publicKey=" + hex.EncodeToString(pub[:])).Status
}

// ParseStatsFileP returns the week offsets of a statistics file (flavour
// independent, minimal decoder).
func ParseStatsFileP(b []byte) ([]uint32, error) {
	var out []uint32
	for len(b) > 0 {
		if len(b) < 4 {
			return out, fmt.Errorf("trailing %d bytes", len(b))
		}
		n := int(binary.LittleEndian.Uint32(b))
		need := 4 + n*(32+16*2016) + 4 + 64
		if n > 1<<20 || len(b) < need {
			return out, fmt.Errorf("record of %d devices needs %d bytes, %d left", n, need, len(b))
		}
		out = append(out, binary.LittleEndian.Uint32(b[need-68:]))
		b = b[need:]
	}
	return out, nil
}
