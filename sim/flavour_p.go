//go:build !test

package sim

import "github.com/glowlabs-org/gca-backend/glow"

// P flavour: production constants, the protocol clock follows the bubble clock.
const flavourName = "P"

const BubbleEpoch = 946684800

func flavourInit() {}

// Slot reads the protocol clock (panics before genesis, as the real code does).
func Slot() uint32 { return glow.CurrentTimeslot() }
