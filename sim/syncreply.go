package sim

// syncreply.go: independent decoder of the documented TCP sync reply layout:
// 2 byte length prefix, then 32 byte device key, 4 byte window offset, 504 byte
// bitfield, 32 byte new GCA, 4 byte new short id, server entries, 64 byte GCA
// signature, 8 byte unix time, 64 byte server signature.

import (
	"encoding/binary"
	"fmt"

	"github.com/glowlabs-org/gca-backend/glow"
	"github.com/glowlabs-org/gca-backend/server"
)

type serverSlot = server.VerifSlot

// SyncReply is a decoded reply.
type SyncReply struct {
	Refused    bool
	Key        glow.PublicKey
	Offset     uint32
	Bits       [4032]bool
	NewGCA     glow.PublicKey
	NewShortID uint32
	Servers    []server.AuthorizedServer
	GCASig     [64]byte
	Time       uint64
	Sig        [64]byte
	Signed     []byte // the bytes covered by the server signature
	MigBody    []byte // device key + (new GCA .. servers): covered by the GCA signature
}

func DecodeSyncReply(b []byte) (*SyncReply, error) {
	if len(b) == 1 && b[0] == 0 {
		return &SyncReply{Refused: true}, nil
	}
	if len(b) < 2 {
		return nil, fmt.Errorf("reply of %d bytes", len(b))
	}
	n := int(binary.LittleEndian.Uint16(b[:2]))
	if len(b) != n+2 {
		return nil, fmt.Errorf("length prefix says %d, got %d bytes after it", n, len(b)-2)
	}
	p := b[2:]
	const fixed = 32 + 4 + 504 + 32 + 4
	if n < fixed+64+8+64 {
		return nil, fmt.Errorf("reply too short: %d", n)
	}
	r := &SyncReply{}
	copy(r.Key[:], p[:32])
	r.Offset = binary.LittleEndian.Uint32(p[32:36])
	for i := 0; i < 4032; i++ {
		r.Bits[i] = p[36+i/8]&(1<<uint(i%8)) != 0
	}
	copy(r.NewGCA[:], p[540:572])
	r.NewShortID = binary.LittleEndian.Uint32(p[572:576])
	end := n - 64 - 8 - 64
	i := fixed
	for i < end {
		if i+34 > end {
			return nil, fmt.Errorf("truncated server entry")
		}
		var as server.AuthorizedServer
		copy(as.PublicKey[:], p[i:i+32])
		as.Banned = p[i+32] != 0
		l := int(p[i+33])
		i += 34
		if i+l+6+64 > end {
			return nil, fmt.Errorf("truncated server entry")
		}
		as.Location = string(p[i : i+l])
		i += l
		as.HttpPort = binary.LittleEndian.Uint16(p[i:])
		as.TcpPort = binary.LittleEndian.Uint16(p[i+2:])
		as.UdpPort = binary.LittleEndian.Uint16(p[i+4:])
		i += 6
		copy(as.GCAAuthorization[:], p[i:i+64])
		i += 64
		r.Servers = append(r.Servers, as)
	}
	copy(r.GCASig[:], p[end:end+64])
	r.Time = binary.LittleEndian.Uint64(p[end+64 : end+72])
	copy(r.Sig[:], p[end+72:])
	r.Signed = p[:n-64]
	r.MigBody = append(append([]byte{}, p[:32]...), p[540:end]...)
	return r, nil
}

// SyncBits performs a sync session for a device id and returns the bitfield.
func (n *ServerNode) SyncBits(id uint32) [4032]bool {
	var req [4]byte
	binary.LittleEndian.PutUint32(req[:], id)
	reply, pv, st := n.SyncSession(req[:])
	if pv != nil {
		n.W.Fail(n.W.Prop+".panic", "sync", "sync handler panicked: %v\n%s", pv, firstRepoFrames(st))
	}
	r, err := DecodeSyncReply(reply)
	if err != nil {
		n.W.Fail(n.W.Prop+".decode", "sync", "sync reply for id %d does not decode: %v", id, err)
	}
	if r.Refused {
		n.W.Fail(n.W.Prop+".decode", "sync", "sync for authorized id %d refused", id)
	}
	if !VerifySig(n.S.PublicKey(), r.Signed, r.Sig) {
		n.W.Fail(n.W.Prop+".decode", "sync", "sync reply signature does not verify under the server key")
	}
	return r.Bits
}

// EncodeSyncBody builds the body of a sync reply (without length prefix,
// timestamp and server signature).
func EncodeSyncBody(key glow.PublicKey, offset uint32, bits *[4032]bool, newGCA glow.PublicKey, newShortID uint32, servers []server.AuthorizedServer, gcaSig [64]byte) []byte {
	b := make([]byte, 0, 800)
	b = append(b, key[:]...)
	b = binary.LittleEndian.AppendUint32(b, offset)
	var bf [504]byte
	for i, on := range bits {
		if on {
			bf[i/8] |= 1 << uint(i%8)
		}
	}
	b = append(b, bf[:]...)
	b = append(b, newGCA[:]...)
	b = binary.LittleEndian.AppendUint32(b, newShortID)
	for _, as := range servers {
		b = append(b, ServerBody(as)...)
		b = append(b, as.GCAAuthorization[:]...)
	}
	b = append(b, gcaSig[:]...)
	return b
}

// SealSyncReply appends the timestamp and the server signature and prepends
// the length prefix.
func SealSyncReply(body []byte, unix uint64, signer *KeyPair) []byte {
	p := append([]byte{}, body...)
	p = binary.LittleEndian.AppendUint64(p, unix)
	sig := glow.Sign(p, signer.Priv)
	p = append(p, sig[:]...)
	out := binary.LittleEndian.AppendUint16(nil, uint16(len(p)))
	return append(out, p...)
}
