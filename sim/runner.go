package sim

// runner.go: the worker side. One OS process executes many independent
// simulated runs of one property, each in its own synctest bubble with a fresh
// world in a fresh scratch directory, appends one JSON line per run to its
// result file, and exits at the first violation (a leaked lock or a mutex
// deadlock leaves a bubble that can neither advance nor be torn down).
//
// Exit codes of a worker: 0 range finished, 3 violation record written,
// 4 harness trouble (watchdog without a mutex-blocked goroutine, divergence).
// Any other death (runtime panic on a goroutine of the system under test) is
// examined by the parent.

import (
	"crypto/sha256"
	"encoding/hex"
	"encoding/json"
	"fmt"
	"os"
	"path/filepath"
	"runtime"
	"sort"
	"strconv"
	"strings"
	"sync/atomic"
	"testing"
	"testing/synctest"
	"time"
)

// Property is one registered check.
type Property struct {
	ID  string
	Run func(m *Sim)
	// Probes that a thorough run must have hit at least once.
	RequiredProbes []string
	// RealStub documents which components ran real code / a stub.
	Real []string
	Stub []string
	// Assumptions recorded in the evidence file.
	Assumptions []string
	Rule        string
	// RequiredSites lists hook sites in /repo that every batch of this check
	// must reach; a site that never fires means a hooked line was removed or
	// moved (hook mismatch, exit 2), not that the property holds.
	RequiredSites []string
	// Level is the evidence level (default exploration).
	Level string
	// NotInjected lists fault kinds deliberately not injected.
	NotInjected []string
}

var registry = map[string]*Property{}

func Register(p *Property) { registry[p.ID] = p }

// RunResult is one line of a worker's result file.
type RunResult struct {
	Run      int            `json:"run"`
	Sig      string         `json:"sig"`
	Draws    int            `json:"draws"`
	Preempts int            `json:"preempts"`
	Faults   map[string]int `json:"faults,omitempty"`
	Probes   map[string]int `json:"probes,omitempty"`
	SimNs    int64          `json:"sim_ns"`
	WallUs   int64          `json:"wall_us"`
	States   []string       `json:"states,omitempty"`
	Sites    map[string]int `json:"sites,omitempty"`
	Sample   []string       `json:"sample,omitempty"`
	Nontriv  bool           `json:"nontrivial"`
}

// ViolationRecord is what a worker leaves behind when it found something.
type ViolationRecord struct {
	Property string         `json:"property"`
	Flavour  string         `json:"flavour"`
	Seed     int64          `json:"seed"`
	Run      int            `json:"run"`
	Tier     string         `json:"tier"`
	Tape     []int          `json:"tape"`
	Draws    []Draw         `json:"draws,omitempty"`
	Rule     string         `json:"rule"`
	Site     string         `json:"site"`
	Detail   string         `json:"detail"`
	Trace    []string       `json:"trace,omitempty"`
	Faults   map[string]int `json:"faults,omitempty"`
}

var (
	progress   atomic.Int64
	curSim     atomic.Pointer[Sim]
	curMeta    atomic.Pointer[ViolationRecord]
	outDir     string
	workerName string
	States     map[string]bool
)

func envInt(name string, def int64) int64 {
	if v := os.Getenv(name); v != "" {
		n, err := strconv.ParseInt(v, 10, 64)
		if err == nil {
			return n
		}
	}
	return def
}

func writeViolation(rec *ViolationRecord) {
	b, _ := json.MarshalIndent(rec, "", " ")
	p := filepath.Join(outDir, "violation-"+workerName+".json")
	os.WriteFile(p, b, 0644)
}

// NoteState records an abstract state hash for the "distinct states" measure.
func (m *Sim) NoteState(parts ...interface{}) {
	h := sha256.Sum256([]byte(fmt.Sprint(parts...)))
	States[hex.EncodeToString(h[:6])] = true
}

// watchdog runs outside any bubble, on the real clock.
func watchdog(limit time.Duration) {
	last := progress.Load()
	lastChange := time.Now()
	for {
		time.Sleep(500 * time.Millisecond)
		p := progress.Load()
		if p != last {
			last = p
			lastChange = time.Now()
			continue
		}
		if time.Since(lastChange) < limit {
			continue
		}
		buf := make([]byte, 8<<20)
		n := runtime.Stack(buf, true)
		stacks := string(buf[:n])
		os.WriteFile(filepath.Join(outDir, "watchdog-"+workerName+".stacks"), buf[:n], 0644)
		meta := curMeta.Load()
		if meta == nil {
			os.Exit(4)
		}
		// A goroutine of the system under test blocked on a mutex is a
		// deadlock of the system; anything else is harness trouble.
		site := ""
		for _, g := range strings.Split(stacks, "\n\n") {
			if (strings.Contains(g, "sync.(*Mutex).Lock") || strings.Contains(g, "sync.(*RWMutex)")) && strings.Contains(g, "gca-backend/") {
				site = TopRepoFunc(g)
				break
			}
		}
		rule, what := ".deadlock", "a goroutine blocked in sync.Mutex.Lock in "
		if site == "" {
			// A goroutine that is executing code of the repository now and
			// still a second later, with no quiescent point for the whole
			// limit: the system under test spins (a loop that never ends).
			spin := func(st string) map[string]string {
				out := map[string]string{}
				for _, g := range strings.Split(st, "\n\n") {
					head, _, _ := strings.Cut(g, "\n")
					if (strings.Contains(head, "[running") || strings.Contains(head, "[runnable")) && strings.Contains(g, "gca-backend/") {
						id, _, _ := strings.Cut(head, " [")
						out[id] = TopRepoFunc(g)
					}
				}
				return out
			}
			first := spin(stacks)
			time.Sleep(time.Second)
			n2 := runtime.Stack(buf, true)
			for id, fn := range spin(string(buf[:n2])) {
				if _, ok := first[id]; ok && fn != "" && progress.Load() == last {
					site, rule, what = fn, ".livelock", "a goroutine spinning in "
				}
			}
		}
		if site == "" {
			fmt.Fprintf(os.Stderr, "WATCHDOG: no progress for %v and no goroutine blocked on a mutex or spinning in repo code\n", limit)
			os.Exit(4)
		}
		rec := *meta
		if m := curSim.Load(); m != nil {
			rec.Tape = m.C.Tape()
			rec.Trace = tail(m.Trace, 60)
			rec.Faults = m.Faults
		}
		rec.Rule = rec.Property + rule
		rec.Site = site
		rec.Detail = "no progress for " + limit.String() + " of real time with " + what + site
		writeViolation(&rec)
		os.Exit(3)
	}
}

func tail(s []string, n int) []string {
	if len(s) > n {
		return s[len(s)-n:]
	}
	return s
}

// WorkerMain is called from TestWorker.
func WorkerMain(t *testing.T) {
	prop := os.Getenv("VERIF_PROP")
	p := registry[prop]
	if p == nil {
		var ids []string
		for id := range registry {
			ids = append(ids, id)
		}
		sort.Strings(ids)
		t.Skipf("VERIF_PROP=%q not registered in this flavour (have %v)", prop, ids)
		return
	}
	seed := envInt("VERIF_SEED", 1)
	from := int(envInt("VERIF_RUN_FROM", 0))
	to := int(envInt("VERIF_RUN_TO", 1))
	stride := int(envInt("VERIF_RUN_STRIDE", 1))
	tier := os.Getenv("VERIF_TIER")
	if tier == "" {
		tier = "quick"
	}
	outDir = os.Getenv("VERIF_OUT")
	if outDir == "" {
		outDir = os.TempDir()
	}
	workerName = os.Getenv("VERIF_WORKER")
	if workerName == "" {
		workerName = "w0"
	}
	budget := time.Duration(envInt("VERIF_BUDGET_MS", 0)) * time.Millisecond
	scratch := os.Getenv("VERIF_SCRATCH")
	if scratch == "" {
		scratch = "/dev/shm"
	}
	scratch = filepath.Join(scratch, fmt.Sprintf("verif-%d-%d", os.Getpid(), time.Now().UnixNano()))
	os.RemoveAll(scratch)
	os.MkdirAll(scratch, 0755)
	defer os.RemoveAll(scratch)

	installHooks()
	flavourInit()
	go watchdog(time.Duration(envInt("VERIF_WATCHDOG_S", 60)) * time.Second)

	var tape []int
	var expect []Draw
	replay := false
	if tf := os.Getenv("VERIF_TAPE"); tf != "" {
		b, err := os.ReadFile(tf)
		if err != nil {
			fmt.Fprintln(os.Stderr, "cannot read tape:", err)
			os.Exit(4)
		}
		var rec ViolationRecord
		if err := json.Unmarshal(b, &rec); err != nil {
			fmt.Fprintln(os.Stderr, "cannot parse tape:", err)
			os.Exit(4)
		}
		tape = rec.Tape
		if os.Getenv("VERIF_STRICT") == "1" {
			expect = rec.Draws
		}
		seed = rec.Seed
		from, to = rec.Run, rec.Run+1
		if rec.Tier != "" {
			tier = rec.Tier
		}
		replay = true
	}

	resPath := filepath.Join(outDir, "results-"+workerName+".jsonl")
	resFile, err := os.OpenFile(resPath, os.O_CREATE|os.O_WRONLY|os.O_APPEND, 0644)
	if err != nil {
		fmt.Fprintln(os.Stderr, "cannot open result file:", err)
		os.Exit(4)
	}
	defer resFile.Close()
	enc := json.NewEncoder(resFile)

	startWall := time.Now()
	for run := from; run < to; run += stride {
		if budget > 0 && time.Since(startWall) > budget {
			break
		}
		progress.Add(1)
		os.WriteFile(filepath.Join(outDir, "current-"+workerName), []byte(strconv.Itoa(run)), 0644)
		var c *Chooser
		if replay {
			c = NewReplayChooser(tape, expect)
		} else {
			c = NewChooser(prop, seed, run)
		}
		if sf := os.Getenv("VERIF_TAPE_STREAM"); sf != "" {
			c.stream, _ = os.OpenFile(sf, os.O_CREATE|os.O_WRONLY|os.O_TRUNC, 0644)
		}
		dir := filepath.Join(scratch, fmt.Sprintf("run-%d", run))
		os.RemoveAll(dir)
		os.MkdirAll(dir, 0755)
		meta := &ViolationRecord{Property: prop, Flavour: effectiveFlavour(), Seed: seed, Run: run, Tier: tier}
		curMeta.Store(meta)
		States = map[string]bool{}
		var m *Sim
		var simNs int64
		wall0 := time.Now()
		var viol *Violation
		func() {
			defer func() {
				// synctest panics on the caller when every goroutine of
				// the bubble is durably blocked.
				if r := recover(); r != nil {
					if v, ok := r.(*Violation); ok {
						viol = v
						return
					}
					msg := fmt.Sprint(r)
					if strings.Contains(msg, "deadlock") {
						buf := make([]byte, 4<<20)
						nn := runtime.Stack(buf, true)
						os.WriteFile(filepath.Join(outDir, "deadlock-"+workerName+".stacks"), buf[:nn], 0644)
						phase := ""
						if m != nil {
							phase = m.Phase
						}
						viol = &Violation{Rule: prop + ".deadlock", Site: phase, Detail: msg}
						return
					}
					panic(r)
				}
			}()
			synctest.Test(t, func(t *testing.T) {
				m = &Sim{C: c, S: newSched(), Prop: prop, Tier: tier, Dir: dir, Start: time.Now(),
					Faults: map[string]int{}, Probes: map[string]int{}}
				curSim.Store(m)
				defer func() {
					if r := recover(); r != nil {
						v, ok := r.(*Violation)
						if !ok {
							buf := make([]byte, 16<<10)
							n := runtime.Stack(buf, false)
							fmt.Fprintf(os.Stderr, "HARNESS PANIC in run %d: %v\n%s\n", run, r, buf[:n])
							os.Exit(4)
						}
						// The bubble may be wedged (leaked lock): report
						// and leave immediately.
						rec := *meta
						rec.Tape = c.Tape()
						rec.Draws = c.Rec
						rec.Rule, rec.Site, rec.Detail = v.Rule, v.Site, v.Detail
						rec.Trace = tail(m.Trace, 80)
						rec.Faults = m.Faults
						writeViolation(&rec)
						resFile.Sync()
						dumpLog(run, "violation "+v.Rule+"@"+v.Site+": "+v.Detail, c, m)
						os.Exit(3)
					}
				}()
				p.Run(m)
				simNs = int64(time.Since(m.Start))
				cur = nil
			})
		}()
		if viol != nil {
			rec := *meta
			rec.Tape = c.Tape()
			rec.Draws = c.Rec
			rec.Rule, rec.Site, rec.Detail = viol.Rule, viol.Site, viol.Detail
			if m != nil {
				rec.Trace = tail(m.Trace, 80)
				rec.Faults = m.Faults
			}
			writeViolation(&rec)
			dumpLog(run, "violation "+viol.Rule+"@"+viol.Site+": "+viol.Detail, c, m)
			os.Exit(3)
		}
		if c.Diverged != "" {
			fmt.Fprintln(os.Stderr, "REPLAY DIVERGED:", c.Diverged)
			os.Exit(4)
		}
		os.RemoveAll(dir)
		h := sha256.Sum256([]byte(strings.Join(m.Sig, ",")))
		rr := RunResult{Run: run, Sig: hex.EncodeToString(h[:8]), Draws: len(c.Rec), Preempts: m.Preempts,
			Faults: m.Faults, Probes: m.Probes, SimNs: simNs, WallUs: time.Since(wall0).Microseconds(),
			Sites: m.S.SiteHits}
		total := 0
		for _, n := range m.Faults {
			total += n
		}
		rr.Nontriv = total > 0 || m.Preempts > 0 || m.Probes["nontrivial"] > 0
		for s := range States {
			rr.States = append(rr.States, s)
		}
		sort.Strings(rr.States)
		if run == from || os.Getenv("VERIF_SAMPLE_ALL") == "1" {
			rr.Sample = tail(m.Trace, 40)
		}
		enc.Encode(&rr)
		dumpLog(run, fmt.Sprintf("sig %s draws %d", rr.Sig, rr.Draws), c, m)
	}
}

// dumpLog appends the full decision/observation log of a run to the file of
// the determinism self-test (a run that ends in a violation included).
func dumpLog(run int, head string, c *Chooser, m *Sim) {
	if os.Getenv("VERIF_DUMP_LOG") == "" {
		return
	}
	f, _ := os.OpenFile(os.Getenv("VERIF_DUMP_LOG"), os.O_CREATE|os.O_WRONLY|os.O_APPEND, 0644)
	fmt.Fprintf(f, "== run %d %s\n", run, head)
	for _, d := range c.Rec {
		fmt.Fprintf(f, "%s/%d=%d\n", d.L, d.N, d.V)
	}
	if m != nil {
		for _, l := range m.Trace {
			fmt.Fprintln(f, l)
		}
	}
	f.Close()
}

// effectiveFlavour is the build flavour, or "S" when the worker runs under
// strace (system-call-boundary mode of C05).
func effectiveFlavour() string {
	if os.Getenv("VERIF_STRACE_FILE") != "" {
		return "S"
	}
	if os.Getenv("VERIF_AUTO_YIELD") != "" {
		return "A"
	}
	return flavourName
}
