//go:build test

package sim

import (
	"time"

	"github.com/glowlabs-org/gca-backend/glow"
)

// T flavour: the repo's own test constants, manual protocol clock.
const flavourName = "T"

// BubbleEpoch is the unix time at which every synctest bubble starts.
const BubbleEpoch = 946684800

func flavourInit() {
	// In the test build GenesisTime is a variable initialised from the real
	// clock; pin it to the bubble epoch so that runs are reproducible.
	glow.GenesisTime = BubbleEpoch
	glow.SetCurrentTimeslot(0)
	MaxRunLife = 112 * time.Second
	// A single operation that has not returned after 30 simulated seconds is
	// wedged (every deadline of the test build is a few seconds): reported as
	// <property>.stuck while the run still has life left, instead of running
	// into the life limit above.
	MaxTaskWait = 30 * time.Second
}

// SetSlot moves the protocol clock.
func SetSlot(s uint32) { glow.SetCurrentTimeslot(s) }

// Slot reads the protocol clock.
func Slot() uint32 { return glow.CurrentTimeslot() }
