//go:build test

package sim

// C18 - the event log stays within its memory bound, keeps the newest events,
// never panics. The EventLogger alone under the simulated clock: sequences of
// Printf (line lengths 0..2x the line limit, repeated and fresh lines),
// ExpireLogs at cut times before / between / after stored timestamps,
// DumpLogEntries, clock advances from 0 ns (ties) to simulated years, for
// several (expiry, max bytes, max line) configurations including a maximum
// smaller than one line. Oracle through DumpLogEntries only.

import (
	"fmt"
	"runtime"
	"sort"
	"strings"
	"time"

	"github.com/glowlabs-org/gca-backend/glow"
)

func init() {
	Register(&Property{
		ID:             "C18",
		Run:            runC18,
		Rule:           "runs = one (expiry, max bytes, max line) configuration x 100-3000 calls (Printf with line lengths 0..2x the line limit, repeated and fresh lines; ExpireLogs at cut times before / between / after stored timestamps; DumpLogEntries) with clock advances of 0 ns (ties), nanoseconds, around the expiry, and simulated years; after every call the dump is compared with a bounded-log reference model (ties in update time accept any consistent eviction); non-trivial = at least one eviction and one expiry that freed space happened; distinct = distinct decision signatures",
		Real:           []string{"glow.EventLogger (Printf, ExpireLogs, DumpLogEntries)"},
		Stub:           []string{"system clock (synctest bubble clock)"},
		RequiredProbes: []string{"c18.eviction", "c18.expiry-freed", "c18.reuse-after-expiry", "c18.tie", "c18.too-long-for-log", "c18.truncated", "c18.years"},
	})
}

type c18Entry struct {
	line string
	ts   []time.Time
}

type c18Model struct {
	entries map[string]*c18Entry
	expiry  time.Duration
	max     int
	maxLine int
}

func (md *c18Model) size() int {
	s := 0
	for l := range md.entries {
		s += 2 * len(l)
	}
	return s
}

func (md *c18Model) expire(now time.Time) int {
	cut := now.Add(-md.expiry)
	freed := 0
	for l, e := range md.entries {
		i := 0
		for i < len(e.ts) && e.ts[i].Before(cut) {
			i++
		}
		e.ts = e.ts[i:]
		if len(e.ts) == 0 {
			delete(md.entries, l)
			freed += 2 * len(l)
		}
	}
	return freed
}

func (e *c18Entry) last() time.Time { return e.ts[len(e.ts)-1] }

func runC18(m *Sim) {
	// A bubble of its own clock, no world needed.
	cfgs := [][3]int{{1000, 200, 50}, {100, 100, 20}, {60, 40, 40}, {10, 5, 8}, {2000, 64, 1000}, {30, 30, 10}, {1 << 20, 500, 200}}
	cfg := cfgs[m.C.Int("config", len(cfgs))]
	expiry := []time.Duration{time.Second, 20 * time.Second, time.Hour, 30 * 24 * time.Hour, time.Nanosecond}[m.C.Int("expiry", 5)]
	md := &c18Model{entries: map[string]*c18Entry{}, expiry: expiry, max: cfg[0], maxLine: cfg[2]}
	lg := glow.NewEventLogger(expiry, cfg[0], cfg[2])
	_ = cfg[1]
	evictions, expiryFreed := 0, 0
	pool := []string{}
	call := func(name string, f func()) {
		defer func() {
			if r := recover(); r != nil {
				buf := make([]byte, 8<<10)
				n := runtime.Stack(buf, false)
				m.Fail("C18.panic", name, "%s panicked: %v\n%s", name, r, firstRepoFrames(string(buf[:n])))
			}
		}()
		f()
	}
	check := func(site string, newest string, newestLoggable bool) {
		var mp map[string][]time.Time
		var order []string
		call("DumpLogEntries", func() { mp, order = lg.DumpLogEntries() })
		md.expire(time.Now())
		total := 0
		for _, l := range sortedKeys(mp) {
			total += 2 * len(l)
			if len(l) > md.maxLine {
				m.Fail("C18.truncate", site, "a stored line has %d bytes, the per-line limit is %d", len(l), md.maxLine)
			}
		}
		if total > md.max {
			m.Fail("C18.bound", site, "stored lines use %d bytes (2 x length), the configured maximum is %d", total, md.max)
		}
		if newestLoggable {
			if _, ok := mp[newest]; !ok {
				m.Fail("C18.newest", site, "the line just logged (%d bytes) is not in the log", len(newest))
			}
		}
		if len(mp) != len(md.entries) {
			m.Fail("C18.account", site, "the log holds %d lines, the reference model %d", len(mp), len(md.entries))
		}
		for _, l := range sortedKeys(md.entries) {
			e := md.entries[l]
			ts, ok := mp[l]
			if !ok {
				m.Fail("C18.account", site, "line %q (last update %v) is missing from the log", short(l), e.last().UnixNano())
			}
			if len(ts) != len(e.ts) {
				m.Fail("C18.account", site, "line %q has %d update times, the model %d", short(l), len(ts), len(e.ts))
			}
			for i := range ts {
				if !ts[i].Equal(e.ts[i]) {
					m.Fail("C18.account", site, "line %q update %d is at %v, the model has %v", short(l), i, ts[i].UnixNano(), e.ts[i].UnixNano())
				}
			}
		}
		if len(order) != len(mp) {
			m.Fail("C18.dump-order", site, "the dump lists %d lines for %d stored", len(order), len(mp))
		}
		for i := 1; i < len(order); i++ {
			a, b := mp[order[i-1]], mp[order[i]]
			if len(a) == 0 || len(b) == 0 {
				m.Fail("C18.dump-order", site, "the dump lists a line that is not stored")
			}
			if a[len(a)-1].After(b[len(b)-1]) {
				m.Fail("C18.dump-order", site, "the dump is not ordered by most recent update")
			}
		}
		m.NoteState(len(mp), total)
	}
	n := 100 + m.C.Int("calls", 400)
	if m.Tier == "thorough" {
		n += m.C.Int("calls-more", 2500)
	}
	for i := 0; i < n; i++ {
		// clock
		ck := m.C.Weighted("clock", 4, 4, 2, 2, 1, 1)
		m.Sig = append(m.Sig, fmt.Sprintf("c%d", ck))
		switch ck {
		case 0:
			m.Probe("c18.tie")
		case 1:
			time.Sleep(time.Duration(1+m.C.Int("ns", 1000)) * time.Nanosecond)
		case 2:
			time.Sleep(expiry/2 + time.Duration(m.C.Int("frac", 1000))*expiry/2000)
		case 3:
			time.Sleep(expiry - time.Nanosecond + time.Duration(m.C.Int("edge", 3))*time.Nanosecond)
		case 4:
			time.Sleep(expiry + time.Duration(1+m.C.Int("beyond", 1000))*time.Millisecond)
		case 5:
			// The bubble clock is an int64 of nanoseconds: stay well inside
			// its range (the runtime misbehaves when a timer saturates).
			if time.Now().Year() < 2180 {
				time.Sleep(time.Duration(1+m.C.Int("years", 3)) * 365 * 24 * time.Hour)
				m.Probe("c18.years")
			}
		}
		switch m.C.Weighted("call", 8, 2, 1) {
		case 0:
			var line string
			if len(pool) > 0 && m.C.Chance("repeat", 1, 3) {
				line = pool[m.C.Int("which", len(pool))]
			} else {
				l := m.C.Int("len", 2*md.maxLine+1)
				if m.C.Chance("len-small", 1, 2) {
					l = m.C.Int("len", md.maxLine/2+2)
				}
				unit := []string{"x", "é", "世", "\x00"}[m.C.Weighted("charset", 6, 1, 1, 1)]
				line = fmt.Sprintf("%d:", i) + strings.Repeat(unit, l)
				line = line[:min(len(line), max(l, 0))]
				if len(pool) < 40 {
					pool = append(pool, line)
				}
			}
			now := time.Now()
			freed := md.expire(now)
			if freed > 0 {
				expiryFreed++
				m.Probe("c18.expiry-freed")
			}
			key := line
			if len(key) > md.maxLine {
				key = key[:md.maxLine]
				m.Probe("c18.truncated")
			}
			need := 2 * len(key)
			loggable := need <= md.max
			if !loggable {
				m.Probe("c18.too-long-for-log")
			}
			sizeBefore := md.size()
			_, existed := md.entries[key]
			call("Printf", func() { lg.Printf("%s", line) })
			var mp map[string][]time.Time
			call("DumpLogEntries", func() { mp, _ = lg.DumpLogEntries() })
			switch {
			case !loggable:
			case existed:
				md.entries[key].ts = append(md.entries[key].ts, now)
			default:
				// Which lines did the log evict? They must be the least recently
				// updated ones, and only as many as needed.
				var evicted []*c18Entry
				for l, e := range md.entries {
					if _, ok := mp[l]; !ok {
						evicted = append(evicted, e)
					}
				}
				if need+sizeBefore <= md.max && len(evicted) > 0 {
					m.Fail("C18.account", "needless-eviction", "a %d byte line fits next to the %d bytes stored (maximum %d), yet %d lines were evicted: space freed by expired lines is not reusable", need, sizeBefore, md.max, len(evicted))
				}
				if len(evicted) > 0 {
					evictions++
					m.Probe("c18.eviction")
					sort.Slice(evicted, func(a, b int) bool { return evicted[a].last().Before(evicted[b].last()) })
					newestEvicted := evicted[len(evicted)-1].last()
					freedBytes := 0
					for _, e := range evicted {
						freedBytes += 2 * len(e.line)
					}
					for _, l := range sortedKeys(md.entries) {
						e := md.entries[l]
						if _, ok := mp[l]; ok && e.last().Before(newestEvicted) {
							m.Fail("C18.evict-order", "order", "line last updated at %v was kept while a line last updated at %v was evicted", e.last().UnixNano(), newestEvicted.UnixNano())
						}
					}
					// Minimality: without the last eviction it would not have fitted.
					needed := false
					for _, e := range evicted {
						if e.last().Equal(newestEvicted) && need+sizeBefore-(freedBytes-2*len(e.line)) > md.max {
							needed = true
						}
					}
					if !needed {
						m.Fail("C18.evict-order", "minimal", "%d lines (%d bytes) were evicted for a %d byte line with %d of %d bytes in use: more than needed", len(evicted), freedBytes, need, sizeBefore, md.max)
					}
					for _, e := range evicted {
						delete(md.entries, e.line)
					}
				} else if freed > 0 || expiryFreed > 0 {
					m.Probe("c18.reuse-after-expiry")
				}
				md.entries[key] = &c18Entry{line: key, ts: []time.Time{now}}
			}
			m.Sig = append(m.Sig, fmt.Sprintf("p%d/%v/%v", len(key)*8/(md.maxLine+1), existed, loggable))
			check("printf", key, loggable)
		case 1:
			// ExpireLogs at a cut time relative to the stored timestamps.
			off := []time.Duration{-time.Hour, -time.Nanosecond, 0, time.Nanosecond, expiry / 2, expiry, expiry + time.Nanosecond, 2 * expiry}[m.C.Int("cut", 8)]
			at := time.Now().Add(off - expiry)
			if m.C.Chance("from-now", 1, 2) {
				at = time.Now().Add(off)
			}
			if at.After(time.Now()) && m.C.Chance("no-future", 1, 2) {
				at = time.Now()
			}
			call("ExpireLogs", func() { lg.ExpireLogs(at) })
			if md.expire(at) > 0 {
				expiryFreed++
				m.Probe("c18.expiry-freed")
			}
			m.Sig = append(m.Sig, "e")
			check("expire", "", false)
		case 2:
			check("dump", "", false)
		}
	}
	if evictions > 0 && expiryFreed > 0 {
		m.Probe("nontrivial")
	}
}

func short(s string) string {
	if len(s) > 24 {
		return s[:24] + "..."
	}
	return s
}
