//go:build test

package sim

// C20, test-flavour supplement: "acceptance-window comparisons give the
// mathematically correct answer for every 32-bit timeslot and clock value (no
// wrap-around)". The production flavour cannot move its clock to the far end of
// the 32 bit timeslot range (the bubble clock is the protocol clock there); the
// test flavour has a settable protocol clock. One server, two devices; the
// clock is put at values all over the 32 bit range (0..500, around 2^31, the
// last slots before 2^32) and well-signed reports are delivered whose timeslots
// are chosen around the clock, around the window and at the ends of the range
// (so that sums and differences wrap if they are computed in 32 bits). The
// reference decision is made in unbounded integers. No simulated time passes
// while the clock is at an extreme value (the rotation loop never sees it).

import (
	"bytes"
	"fmt"
	"reflect"
)

func init() {
	Register(&Property{
		ID:             "C20",
		Run:            runC20T,
		Rule:           "test-flavour supplement of C20: 60-200 (clock, timeslot) pairs per run, the clock set to 0..500, 2^31 +- k and 2^32-1-k, the timeslot to clock +- 431..433, to the window edges, to 0..10 and to 2^32-1-k and to values whose distance from the clock is a multiple of 2^32 away from a small number; the server's decision (state and report log changed or not) is compared with the decision in unbounded integers",
		Real:           []string{"report handler: acceptance comparison and window guard on 32 bit timeslots"},
		Stub:           []string{"protocol clock (set directly: the test build's SetCurrentTimeslot)"},
		RequiredProbes: []string{"c20.t.clock-near-2^32", "c20.t.clock-small", "c20.t.timeslot-near-2^32", "c20.t.accepted"},
	})
}

func runC20T(m *Sim) {
	w := NewWorld(m)
	defer w.Shutdown()
	SetSlot(uint32(m.C.Int("now0", 400)))
	n, _, devs := w.StdSetup("srv0", []uint64{1 << 40, 1 << 40})
	n.Check("C20.compare", "setup")
	home := Slot()
	trials := 60 + m.C.Int("trials", 140)
	for i := 0; i < trials; i++ {
		var clock uint32
		switch m.C.Weighted("clock", 3, 2, 3, 1) {
		case 0:
			clock = uint32(m.C.Int("small", 501))
			m.Probe("c20.t.clock-small")
		case 1:
			clock = 1<<31 - 250 + uint32(m.C.Int("mid", 501))
		case 2:
			clock = 1<<32 - 1 - uint32(m.C.Int("top", 501))
			m.Probe("c20.t.clock-near-2^32")
		case 3:
			clock = home + uint32(m.C.Int("near-home", 400))
		}
		off := n.Model.Offset
		cands := []int64{int64(clock), int64(clock) - 431, int64(clock) - 432, int64(clock) - 433, int64(clock) + 431, int64(clock) + 432, int64(clock) + 433,
			int64(off), int64(off) + 4031, int64(off) + 4032, int64(m.C.Int("low", 11)), int64(m.C.Int("inwin", 4032)) + int64(off),
			1<<32 - 1 - int64(m.C.Int("ttop", 500)), 1 << 31, int64(clock) + 1<<31,
			// a small distance from the clock, 2^32 away
			int64(clock) + int64(m.C.Int("d", 865)) - 432 + 1<<32, int64(clock) + int64(m.C.Int("d", 865)) - 432 - 1<<32}
		ts := cands[m.C.Int("timeslot", len(cands))]
		ts = ((ts % (1 << 32)) + 1<<32) % (1 << 32)
		if ts >= 1<<32-501 {
			m.Probe("c20.t.timeslot-near-2^32")
		}
		d := devs[m.C.Int("dev", len(devs))]
		b := SignedReport(d.Key, d.ID, uint32(ts), uint64(500+m.C.Int("power", 5))).Encode()
		SetSlot(clock)
		before := c01Take(n)
		n.Datagram(b)
		changed, why := n.Model.Deliver(b, clock)
		after := c01Take(n)
		SetSlot(home)
		m.Sig = append(m.Sig, fmt.Sprintf("c%d/%s", clock>>29, why))
		if !changed {
			if !reflect.DeepEqual(before.S, after.S) || !bytes.Equal(before.File, after.File) {
				m.Fail("C20.compare", why, "clock %d, report for timeslot %d (window [%d,%d)): the report is not acceptable (%s; distance from the clock %d slots), yet the server's state or report log changed: a comparison wrapped around", clock, ts, off, int64(off)+4032, why, ts-int64(clock))
			}
		} else {
			m.Probe("c20.t.accepted")
			if err := n.Model.CompareSnap(after.S); err != nil {
				m.Fail("C20.compare", "accepted", "clock %d, report for timeslot %d is acceptable, yet: %v", clock, ts, err)
			}
		}
		m.NoteState(clock>>28, uint32(ts)>>28, changed)
	}
	n.Check("C20.compare", "final")
	m.Probe("nontrivial")
}
