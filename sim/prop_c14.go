//go:build test

package sim

// C14 - archive download is a consistent, public-only snapshot. Archive tasks
// park at the yield between two files; in each gap the policy may inject a
// write burst: a new device and its first report; the GCA registration, the
// first device and its report; a rotation; plain reports. Request bursts probe
// the rate limit.

import (
	"archive/zip"
	"bytes"
	"fmt"
	"io"
	"runtime"
	"sort"
	"sync"
	"time"

	"github.com/glowlabs-org/gca-backend/glow"
	"github.com/glowlabs-org/gca-backend/server"
)

func init() {
	Register(&Property{
		ID:             "C14",
		Run:            runC14,
		Rule:           "runs = 3-10 archive requests, each parked at every gap between two files while a seeded write burst (new device + first report / registration + first device + report / rotation / reports) is injected, plus nested, paired and staggered requests and request bursts at one simulated instant against the rate limit; every 200 reply is unzipped and checked for record-aligned prefixes, dependency closure, signatures, absence of the private key, and the rate bound; non-trivial = at least one burst was injected inside an archive; distinct = distinct decision signatures",
		Real:           []string{"ArchiveHandler, addFile, addPubKeyFile, rate limiter", "all write paths used by the bursts", "rotation loop"},
		Stub:           []string{"socket listeners"},
		Assumptions:    []string{"one write call is atomic with respect to a concurrent read of the same file (README, File Writing and Archiving): bursts are injected between files, not inside a write"},
		RequiredProbes: []string{"c14.burst.new-device", "c14.burst.registration", "c14.burst.rotation", "c14.burst.reports", "c14.rate-limited", "c14.archive-ok", "c14.overlapping-requests", "c14.paired-requests", "c14.staggered-requests", "c14.window-edge-request"},
		RequiredSites:  []string{"archive.file", "archive.pubkey"},
	})
}

type c14Reply struct {
	at   time.Duration
	body []byte
}

func runC14(m *Sim) {
	w := NewWorld(m)
	defer w.Shutdown()
	h := NewHist(w, "srv0", "C14")
	n := h.N
	SetSlot(uint32(500 + m.C.Int("now0", 2500)))
	h.Boot()
	preRegistered := m.C.Chance("registered", 3, 4)
	if preRegistered {
		h.Setup(1 + m.C.Int("devices", 2))
		for i := 0; i < 3+m.C.Int("reports", 10); i++ {
			h.OpReport()
		}
		if m.C.Chance("rotated", 1, 3) {
			SetSlot(n.Model.Offset + 3300)
			h.OpTime(120 * time.Millisecond)
		}
	}
	w.S.EnableSites("archive.file", "archive.pubkey")
	bursts := 0
	var oks []c14Reply
	// The limiter is consulted in the first step of a request: the moment its
	// task is released from its start is its admission time.
	admittedAt := map[*HTTPResult]time.Duration{}
	var admMu sync.Mutex
	archiveAsync := func(label string, res *HTTPResult) *Task {
		return w.Go(label+":GET/api/v1/archive@"+n.Name, func() {
			admMu.Lock()
			admittedAt[res] = time.Since(m.Start)
			admMu.Unlock()
			defer func() {
				if r := recover(); r != nil {
					buf := make([]byte, 16<<10)
					k := runtime.Stack(buf, false)
					res.Panic = r
					res.Stack = string(buf[:k])
				}
			}()
			res.Status, res.Body = n.serve("GET", "/api/v1/archive", nil, nil)
		})
	}
	w.OnPark = func(p *Parked) {
		if p.Site != "archive.file" && p.Site != "archive.pubkey" {
			return
		}
		if m.C.Chance("time-passes-in-gap", 1, 6) {
			// A slow disk: milliseconds pass inside the request.
			w.Advance(time.Duration(1+m.C.Int("gap-ms", 40)) * time.Millisecond)
			h.AfterRotations()
		}
		if !m.C.Chance("burst", 1, 2) {
			return
		}
		bursts++
		m.Probe("nontrivial")
		if m.C.Chance("second-archive-request", 1, 5) {
			// Another archive request arrives while this one sits between two
			// files (it runs to its end here); afterwards the usual burst, so that
			// e.g. the registration falls between the two requests' reads.
			res := &HTTPResult{}
			at := time.Since(m.Start) // nested: released and run here, no time passes before its first step
			w.Finish(archiveAsync("archive-overlap", res))
			if res.Panic != nil {
				m.Fail("C14.panic", "archive", "archive handler panicked: %v\n%s", res.Panic, firstRepoFrames(res.Stack))
			}
			if res.Status == 200 {
				oks = append(oks, c14Reply{at: at, body: res.Body})
			}
			m.Probe("c14.overlapping-requests")
		}
		switch m.C.Weighted("burst-kind", 3, 2, 2, 3) {
		case 0: // new device + its first report
			if n.Model.Registered && len(h.Devs) < 6 {
				d := h.NewDevice(1000)
				b := SignedReport(d.Key, d.ID, Slot(), 500).Encode()
				h.Sent = append(h.Sent, b)
				n.DoDatagram(b)
				m.Probe("c14.burst.new-device")
			}
		case 1: // registration + first device + report
			if !n.Model.Registered {
				n.DoRegister(h.GCA.Pub, n.Temp)
				d := h.NewDevice(1000)
				n.DoDatagram(SignedReport(d.Key, d.ID, Slot(), 600).Encode())
				m.Probe("c14.burst.registration")
			}
		case 2: // rotation
			if n.Model.Registered {
				SetSlot(n.Model.Offset + 3201 + uint32(m.C.Int("past", 100)))
				w.Advance(ReportMigrationPeriod + 5*msec)
				h.AfterRotations()
				m.Probe("c14.burst.rotation")
			}
		case 3:
			if len(h.Devs) > 0 {
				for i := 0; i < 1+m.C.Int("n", 4); i++ {
					h.OpReport()
				}
				m.Probe("c14.burst.reports")
			}
		}
	}
	consts := server.VerifConsts()
	collect := func(res *HTTPResult) {
		if res.Panic != nil {
			m.Fail("C14.panic", "archive", "archive handler panicked: %v\n%s", res.Panic, firstRepoFrames(res.Stack))
		}
		m.Sig = append(m.Sig, fmt.Sprintf("a:%d", res.Status))
		switch res.Status {
		case 200:
			at, ok := admittedAt[res]
			if !ok {
				panic("harness: no admission time recorded for a served archive request")
			}
			oks = append(oks, c14Reply{at: at, body: res.Body})
			m.Probe("c14.archive-ok")
		case 429:
			m.Probe("c14.rate-limited")
		}
	}
	// staggered: two requests admitted at different instants and both in flight
	// (each parked in front of its first file), then finished one after the
	// other in a seeded order with a write burst between them; optionally
	// followed by limit-1 immediate requests and one placed between the instants
	// at which the two admissions leave the rate window - whichever of the two
	// the limiter still remembers decides that request.
	staggered := func() {
		gap := time.Duration(1+m.C.Int("stagger-ms", 40)) * time.Millisecond
		m.S.Hold(n.Name + ":archive.file")
		resA, resB := &HTTPResult{}, &HTTPResult{}
		tA := archiveAsync("archive-older", resA)
		w.Settle()
		w.Advance(gap)
		h.AfterRotations()
		tB := archiveAsync("archive-younger", resB)
		w.Settle()
		first, second := tA, tB
		if m.C.Chance("younger-first", 1, 3) {
			first, second = tB, tA
		}
		m.S.Hold(second.Name)
		m.S.Unhold(n.Name + ":archive.file")
		w.Finish(first)
		if !n.Model.Registered && m.C.Chance("registration-between", 2, 3) {
			n.DoRegister(h.GCA.Pub, n.Temp)
			d := h.NewDevice(1000)
			n.DoDatagram(SignedReport(d.Key, d.ID, Slot(), 600).Encode())
			m.Probe("c14.burst.registration")
		}
		m.S.Unhold(second.Name)
		w.Finish(second)
		collect(resA)
		collect(resB)
		m.Probe("c14.staggered-requests")
		if !m.C.Chance("window-edge-tail", 1, 2) {
			return
		}
		for k := 0; k < consts.ArchiveLimit-1; k++ {
			res := &HTTPResult{}
			w.Finish(archiveAsync("archive-tail", res))
			collect(res)
		}
		at, okA := admittedAt[resA]
		if !okA {
			return
		}
		target := at + consts.ArchiveRate + time.Duration(m.C.Int("edge-ms", int(gap/time.Millisecond)+2))*time.Millisecond
		if now := time.Since(m.Start); target > now {
			w.Advance(target - now)
			h.AfterRotations()
		}
		res := &HTTPResult{}
		w.Finish(archiveAsync("archive-edge", res))
		collect(res)
		m.Probe("c14.window-edge-request")
	}
	narch := 3 + m.C.Int("archives", 8)
	for i := 0; i < narch; i++ {
		if m.C.Chance("staggered", 1, 4) {
			staggered()
			continue
		}
		// Seeded pacing: tight loops at one instant, or spread out.
		switch m.C.Weighted("pace", 2, 2, 3) {
		case 0:
		case 1:
			w.Advance(time.Duration(1+m.C.Int("ms", 25)) * time.Millisecond)
		case 2:
			w.Advance(consts.ArchiveRate + time.Duration(m.C.Int("ms", 30))*time.Millisecond)
		}
		h.AfterRotations()
		if m.C.Chance("invalid-first", 1, 4) {
			// Requests that are refused before or by the limiter must not buy
			// extra archives.
			switch m.C.Int("invalid", 3) {
			case 0:
				n.Request("POST", "/api/v1/archive", nil)
			case 1:
				n.Request("GET", "/api/v1/archive", []byte("body"))
			case 2:
				n.Request("DELETE", "/api/v1/archive?x=1", nil)
			}
			m.Probe("c14.invalid-request")
		}
		res := &HTTPResult{}
		// The limiter is consulted in the first step of the request, before
		// any park: this is the admission time.
		admitted := time.Since(m.Start)
		t := archiveAsync("archive", res)
		if m.C.Chance("paired-request", 1, 4) {
			// Two requests in flight together: the scheduler interleaves them at
			// the gaps between the files (and bursts land between their reads).
			res2 := &HTTPResult{}
			t2 := archiveAsync("archive-pair", res2)
			w.Finish(t)
			w.Finish(t2)
			if res2.Panic != nil {
				m.Fail("C14.panic", "archive", "archive handler panicked: %v\n%s", res2.Panic, firstRepoFrames(res2.Stack))
			}
			if res2.Status == 200 {
				at2, ok2 := admittedAt[res2]
				if !ok2 {
					panic("harness: no admission time recorded for " + t2.Name)
				}
				oks = append(oks, c14Reply{at: at2, body: res2.Body})
			}
			m.Probe("c14.paired-requests")
		}
		w.Finish(t)
		if res.Panic != nil {
			m.Fail("C14.panic", "archive", "archive handler panicked: %v\n%s", res.Panic, firstRepoFrames(res.Stack))
		}
		m.Sig = append(m.Sig, fmt.Sprintf("a:%d", res.Status))
		switch res.Status {
		case 200:
			if at, ok := admittedAt[res]; ok {
				admitted = at
			}
			oks = append(oks, c14Reply{at: admitted, body: res.Body})
			m.Probe("c14.archive-ok")
		case 429:
			m.Probe("c14.rate-limited")
		}
	}
	w.OnPark = nil
	h.AfterRotations()
	_ = bursts

	// Rate bound (certain violations only): limit+1 replies with status 200
	// inside a span strictly shorter than the rate window.
	sort.SliceStable(oks, func(i, j int) bool { return oks[i].at < oks[j].at })
	for i := 0; i+consts.ArchiveLimit < len(oks); i++ {
		span := oks[i+consts.ArchiveLimit].at - oks[i].at
		if span < consts.ArchiveRate {
			m.Fail("C14.rate", "limit", "%d archives were served within %v, the limit is %d per %v", consts.ArchiveLimit+1, span, consts.ArchiveLimit, consts.ArchiveRate)
		}
	}

	// Every served archive against the final files.
	final := map[string][]byte{}
	for _, f := range consts.PublicFiles {
		final[f] = n.ReadFile(f)
	}
	priv := n.Key.Priv
	for k, rep := range oks {
		c14CheckArchive(w, n, k, rep.body, final, priv[:], consts.PublicFiles)
	}
}

func c14CheckArchive(w *World, n *ServerNode, k int, body []byte, final map[string][]byte, priv []byte, public []string) {
	if bytes.Contains(body, priv) {
		w.Fail("C14.private", "compressed", "archive %d contains the server's private key bytes", k)
	}
	zr, err := zip.NewReader(bytes.NewReader(body), int64(len(body)))
	if err != nil {
		w.Fail("C14.prefix", "zip", "archive %d is not a zip file: %v", k, err)
	}
	files := map[string][]byte{}
	var names []string
	for _, f := range zr.File {
		rc, err := f.Open()
		if err != nil {
			w.Fail("C14.prefix", "zip", "archive %d: cannot open %s: %v", k, f.Name, err)
		}
		b, err := io.ReadAll(rc)
		rc.Close()
		if err != nil {
			w.Fail("C14.prefix", "zip", "archive %d: cannot read %s: %v", k, f.Name, err)
		}
		if _, dup := files[f.Name]; dup {
			w.Fail("C14.prefix", "names", "archive %d lists %s twice", k, f.Name)
		}
		files[f.Name] = b
		names = append(names, f.Name)
		if bytes.Contains(b, priv) {
			w.Fail("C14.private", f.Name, "archive %d: %s contains the server's private key bytes", k, f.Name)
		}
	}
	want := append(append([]string{}, public...), "server.pubkey", "README")
	if len(names) != len(want) {
		w.Fail("C14.prefix", "names", "archive %d holds %v, expected %v", k, names, want)
	}
	for _, nme := range want {
		if _, ok := files[nme]; !ok {
			w.Fail("C14.prefix", "names", "archive %d lacks %s (holds %v)", k, nme, names)
		}
	}
	// Record-aligned prefixes of the final files.
	for _, nme := range public {
		b := files[nme]
		if !bytes.HasPrefix(final[nme], b) {
			w.Fail("C14.prefix", nme, "archive %d: %s (%d bytes) is not a prefix of the file at the end of the run (%d bytes)", k, nme, len(b), len(final[nme]))
		}
	}
	if len(files["equipment-reports.dat"])%80 != 0 {
		w.Fail("C14.prefix", "equipment-reports.dat", "archive %d: report file of %d bytes is not a whole number of records", k, len(files["equipment-reports.dat"]))
	}
	if len(files["equipment-authorizations.dat"])%148 != 0 {
		w.Fail("C14.prefix", "equipment-authorizations.dat", "archive %d: authorization file of %d bytes is not a whole number of records", k, len(files["equipment-authorizations.dat"]))
	}
	if l := len(files["gcaPubKey.dat"]); l != 32 {
		w.Fail("C14.prefix", "gcaPubKey.dat", "archive %d: GCA key file has %d bytes", k, l)
	}
	if l := len(files["server.pubkey"]); l != 32 {
		w.Fail("C14.prefix", "server.pubkey", "archive %d: server.pubkey has %d bytes", k, l)
	}
	weeks, err := ParseStatsFile(files["allDeviceStats.dat"])
	if err != nil {
		w.Fail("C14.prefix", "allDeviceStats.dat", "archive %d: statistics file is not a whole number of records: %v", k, err)
	}
	// Dependency closure.
	var gca, srvKey glow.PublicKey
	copy(gca[:], files["gcaPubKey.dat"])
	copy(srvKey[:], files["server.pubkey"])
	if srvKey != n.Key.Pub {
		w.Fail("C14.closure", "server.pubkey", "archive %d: server.pubkey is not the server's public key", k)
	}
	firstAuth := map[uint32]glow.EquipmentAuthorization{}
	ab := files["equipment-authorizations.dat"]
	for i := 0; i+148 <= len(ab); i += 148 {
		a, err := glow.DeserializeEquipmentAuthorization(ab[i : i+148])
		if err != nil {
			w.Fail("C14.closure", "authorization", "archive %d: authorization %d does not decode", k, i/148)
		}
		if !VerifySig(gca, AuthSigningBytes(a), a.Signature) {
			w.Fail("C14.closure", "authorization", "archive %d: authorization %d (id %d) does not verify under the archived GCA key", k, i/148, a.ShortID)
		}
		if _, ok := firstAuth[a.ShortID]; !ok {
			firstAuth[a.ShortID] = a
		}
	}
	rb := files["equipment-reports.dat"]
	for i := 0; i+80 <= len(rb); i += 80 {
		r, _ := DecodeReport(rb[i : i+80])
		a, ok := firstAuth[r.ID]
		if !ok {
			w.Fail("C14.closure", "report", "archive %d: report %d is from device %d whose authorization is not in the archive", k, i/80, r.ID)
		}
		if !VerifySig(a.PublicKey, ReportSigningBytes(r.ID, r.Slot, r.Power), r.Sig) {
			w.Fail("C14.closure", "report", "archive %d: report %d does not verify under the archived authorization of device %d", k, i/80, r.ID)
		}
	}
	for i := range weeks {
		if !VerifySig(srvKey, WeekSigningBytes(weeks[i].Devices, weeks[i].TimeslotOffset), weeks[i].Signature) {
			w.Fail("C14.closure", "statistics", "archive %d: weekly record %d does not verify under server.pubkey", k, i)
		}
		for _, d := range weeks[i].Devices {
			found := false
			for _, a := range firstAuth {
				if a.PublicKey == d.PublicKey {
					found = true
				}
			}
			if !found {
				w.Fail("C14.closure", "statistics", "archive %d: weekly record %d lists a device whose authorization is not in the archive", k, i)
			}
		}
	}
}
