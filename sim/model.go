package sim

// model.go: independent codecs of the documented layouts and the small
// sequential reference models used as oracles. Written from the property
// statements and the README, not from the code: repo types are used only as
// plain data containers.

import (
	"bytes"
	"encoding/binary"
	"fmt"
	"math"
	"sort"

	"github.com/glowlabs-org/gca-backend/glow"
	"github.com/glowlabs-org/gca-backend/server"
)

// ---- codecs ---------------------------------------------------------------

// Report is a decoded 80 byte datagram.
type Report struct {
	ID    uint32
	Slot  uint32
	Power uint64
	Sig   [64]byte
}

func (r Report) Encode() []byte {
	b := make([]byte, 80)
	binary.LittleEndian.PutUint32(b[0:], r.ID)
	binary.LittleEndian.PutUint32(b[4:], r.Slot)
	binary.LittleEndian.PutUint64(b[8:], r.Power)
	copy(b[16:], r.Sig[:])
	return b
}

// DecodeReport decodes the leading 80 bytes.
func DecodeReport(b []byte) (Report, bool) {
	if len(b) < 80 {
		return Report{}, false
	}
	var r Report
	r.ID = binary.LittleEndian.Uint32(b[0:4])
	r.Slot = binary.LittleEndian.Uint32(b[4:8])
	r.Power = binary.LittleEndian.Uint64(b[8:16])
	copy(r.Sig[:], b[16:80])
	return r, true
}

// ReportSigningBytes is the documented signing layout: ASCII struct name then
// little endian id, slot, power.
func ReportSigningBytes(id, slot uint32, power uint64) []byte {
	b := make([]byte, 0, 31)
	b = append(b, "EquipmentReport"...)
	b = binary.LittleEndian.AppendUint32(b, id)
	b = binary.LittleEndian.AppendUint32(b, slot)
	b = binary.LittleEndian.AppendUint64(b, power)
	return b
}

// SignedReport builds a report signed the standard (deterministic) way.
func SignedReport(k *KeyPair, id, slot uint32, power uint64) Report {
	r := Report{ID: id, Slot: slot, Power: power}
	r.Sig = glow.Sign(ReportSigningBytes(id, slot, power), k.Priv)
	return r
}

// AuthBody encodes the 84 signed bytes of an authorization.
func AuthBody(a glow.EquipmentAuthorization) []byte {
	b := make([]byte, 0, 84)
	b = binary.LittleEndian.AppendUint32(b, a.ShortID)
	b = append(b, a.PublicKey[:]...)
	b = binary.LittleEndian.AppendUint64(b, math.Float64bits(a.Latitude))
	b = binary.LittleEndian.AppendUint64(b, math.Float64bits(a.Longitude))
	b = binary.LittleEndian.AppendUint64(b, a.Capacity)
	b = binary.LittleEndian.AppendUint64(b, a.Debt)
	b = binary.LittleEndian.AppendUint32(b, a.Expiration)
	b = binary.LittleEndian.AppendUint32(b, a.Initialization)
	b = binary.LittleEndian.AppendUint64(b, a.ProtocolFee)
	return b
}

func AuthSigningBytes(a glow.EquipmentAuthorization) []byte {
	return append([]byte("EquipmentAuthorization"), AuthBody(a)...)
}

// AuthEncode is the 148 byte disk form.
func AuthEncode(a glow.EquipmentAuthorization) []byte {
	return append(AuthBody(a), a.Signature[:]...)
}

func SignAuth(k *KeyPair, a glow.EquipmentAuthorization) glow.EquipmentAuthorization {
	a.Signature = glow.Sign(AuthSigningBytes(a), k.Priv)
	return a
}

// AuthEqual compares two authorizations bit for bit.
func AuthEqual(a, b glow.EquipmentAuthorization) bool {
	return bytes.Equal(AuthEncode(a), AuthEncode(b))
}

func RegistrationSigningBytes(key glow.PublicKey) []byte {
	return append([]byte("GCARegistration"), key[:]...)
}

// ServerBody encodes the signed part of an authorized server entry.
func ServerBody(as server.AuthorizedServer) []byte {
	b := make([]byte, 0, 40+len(as.Location))
	b = append(b, as.PublicKey[:]...)
	if as.Banned {
		b = append(b, 1)
	} else {
		b = append(b, 0)
	}
	b = append(b, byte(len(as.Location)))
	b = append(b, as.Location...)
	b = binary.LittleEndian.AppendUint16(b, as.HttpPort)
	b = binary.LittleEndian.AppendUint16(b, as.TcpPort)
	b = binary.LittleEndian.AppendUint16(b, as.UdpPort)
	return b
}

func ServerSigningBytes(as server.AuthorizedServer) []byte {
	return append([]byte("AuthorizedServer"), ServerBody(as)...)
}

func SignServer(k *KeyPair, as server.AuthorizedServer) server.AuthorizedServer {
	as.GCAAuthorization = glow.Sign(ServerSigningBytes(as), k.Priv)
	return as
}

// MigrationBody encodes the signed part of a migration order.
func MigrationBody(em server.EquipmentMigration) []byte {
	b := make([]byte, 0, 68)
	b = append(b, em.Equipment[:]...)
	b = append(b, em.NewGCA[:]...)
	b = binary.LittleEndian.AppendUint32(b, em.NewShortID)
	for _, as := range em.NewServers {
		b = append(b, ServerBody(as)...)
		b = append(b, as.GCAAuthorization[:]...)
	}
	return b
}

func MigrationSigningBytes(em server.EquipmentMigration) []byte {
	return append([]byte("EquipmentMigration"), MigrationBody(em)...)
}

func SignMigration(k *KeyPair, em server.EquipmentMigration) server.EquipmentMigration {
	em.Signature = glow.Sign(MigrationSigningBytes(em), k.Priv)
	return em
}

// WeekSigningBytes is the documented layout of the weekly statistics.
func WeekSigningBytes(devs []server.DeviceStats, offset uint32) []byte {
	b := make([]byte, 0, 14+8+len(devs)*(32+16*2016))
	b = append(b, "AllDeviceStats"...)
	b = binary.LittleEndian.AppendUint32(b, uint32(len(devs)))
	for i := range devs {
		b = append(b, devs[i].PublicKey[:]...)
		for _, po := range devs[i].PowerOutputs {
			b = binary.LittleEndian.AppendUint64(b, po)
		}
		for _, ir := range devs[i].ImpactRates {
			b = binary.LittleEndian.AppendUint64(b, math.Float64bits(ir))
		}
	}
	b = binary.LittleEndian.AppendUint32(b, offset)
	return b
}

// ---- server reference model ---------------------------------------------

// SlotModel is the per (device, slot) machine: empty is the absence of an
// entry, otherwise one(report) or banned.
type SlotModel struct {
	Banned bool
	Rep    Report // the stored report when not banned
}

// Value is the published power value of a slot.
func (s *SlotModel) Value() uint64 {
	if s == nil {
		return 0
	}
	if s.Banned {
		return 1
	}
	return s.Rep.Power
}

type DeviceModel struct {
	Auth  glow.EquipmentAuthorization
	Slots map[uint32]*SlotModel // by absolute timeslot
}

type WeekModel struct {
	Offset  uint32
	Devices map[glow.PublicKey]*[2016]uint64
}

// ServerModel is the sequential reference model of one GCA server.
type ServerModel struct {
	Registered bool
	GCA        glow.PublicKey
	Temp       glow.PublicKey
	Devices    map[uint32]*DeviceModel
	Bans       map[uint32]bool
	Offset     uint32
	Weeks      []WeekModel
	Servers    []server.AuthorizedServer
	Migrations map[glow.PublicKey]server.EquipmentMigration
	// Transitions counts slot state changes (each one appends one record to
	// the report log).
	Transitions int
}

func NewServerModel(temp glow.PublicKey) *ServerModel {
	return &ServerModel{
		Temp:       temp,
		Devices:    make(map[uint32]*DeviceModel),
		Bans:       make(map[uint32]bool),
		Migrations: make(map[glow.PublicKey]server.EquipmentMigration),
	}
}

// Register applies a registration request, reporting whether it succeeds.
func (m *ServerModel) Register(key glow.PublicKey, sig [64]byte) bool {
	if m.Registered {
		return false
	}
	if !VerifySig(m.Temp, RegistrationSigningBytes(key), sig) {
		return false
	}
	m.Registered = true
	m.GCA = key
	return true
}

// AuthResult is the outcome class of an authorization.
type AuthResult int

const (
	AuthRefused   AuthResult = iota // nothing changes
	AuthNew                         // device added
	AuthDuplicate                   // identical, nothing changes
	AuthConflict                    // id banned
)

func (r AuthResult) String() string {
	return [...]string{"refused", "new", "duplicate", "conflict"}[r]
}

// Authorize applies an equipment authorization.
func (m *ServerModel) Authorize(a glow.EquipmentAuthorization) AuthResult {
	if !m.Registered {
		return AuthRefused
	}
	if !VerifySig(m.GCA, AuthSigningBytes(a), a.Signature) {
		return AuthRefused
	}
	if m.Bans[a.ShortID] {
		return AuthRefused
	}
	if d, ok := m.Devices[a.ShortID]; ok {
		if AuthEqual(d.Auth, a) {
			return AuthDuplicate
		}
		delete(m.Devices, a.ShortID)
		m.Bans[a.ShortID] = true
		return AuthConflict
	}
	m.Devices[a.ShortID] = &DeviceModel{Auth: a, Slots: make(map[uint32]*SlotModel)}
	return AuthNew
}

// OverCapacity is the capacity rule in unbounded integers: a non-negative
// power (as a signed 64 bit value) above floor(capacity*135/100).
func OverCapacity(power, capacity uint64) bool {
	if int64(power) < 0 {
		return false
	}
	// capacity*135/100 without overflow.
	hi, lo := mul64(capacity, 135)
	q, _ := div128(hi, lo, 100)
	if q.hi != 0 {
		return false // limit above 2^64, nothing exceeds it
	}
	return power > q.lo
}

type u128 struct{ hi, lo uint64 }

func mul64(a, b uint64) (hi, lo uint64) {
	const mask = 1<<32 - 1
	a0, a1 := a&mask, a>>32
	b0, b1 := b&mask, b>>32
	w0 := a0 * b0
	t := a1*b0 + w0>>32
	w1 := t & mask
	w2 := t >> 32
	w1 += a0 * b1
	hi = a1*b1 + w2 + w1>>32
	lo = a * b
	return
}

func div128(hi, lo, d uint64) (u128, uint64) {
	qhi := hi / d
	r := hi % d
	// long division of (r<<64 | lo) by d, bit by bit (d is small).
	var q uint64
	for i := 63; i >= 0; i-- {
		r = r<<1 | (lo>>uint(i))&1
		if r >= d {
			r -= d
			q |= 1 << uint(i)
		}
	}
	return u128{qhi, q}, r
}

// Acceptable is the acceptance predicate of C01 for a datagram at clock now.
func (m *ServerModel) Acceptable(b []byte, now uint32) (Report, bool, string) {
	r, ok := DecodeReport(b)
	if !ok {
		return r, false, "short"
	}
	d, ok := m.Devices[r.ID]
	if !ok {
		return r, false, "unknown-or-banned-device"
	}
	if !VerifySig(d.Auth.PublicKey, ReportSigningBytes(r.ID, r.Slot, r.Power), r.Sig) {
		return r, false, "bad-signature"
	}
	diff := int64(r.Slot) - int64(now)
	if diff < -432 || diff > 432 {
		return r, false, "outside-acceptance-range"
	}
	if int64(r.Slot) < int64(m.Offset) || int64(r.Slot) >= int64(m.Offset)+4032 {
		return r, false, "outside-window"
	}
	if r.Power == 0 || r.Power == 1 {
		return r, false, "sentinel"
	}
	return r, true, ""
}

// Deliver applies a datagram. It reports whether the state changed.
func (m *ServerModel) Deliver(b []byte, now uint32) (changed bool, why string) {
	r, ok, why := m.Acceptable(b, now)
	if !ok {
		return false, why
	}
	d := m.Devices[r.ID]
	st := d.Slots[r.Slot]
	switch {
	case st == nil:
		if OverCapacity(r.Power, d.Auth.Capacity) {
			d.Slots[r.Slot] = &SlotModel{Banned: true, Rep: r}
			m.Transitions++
			return true, "over-capacity"
		}
		d.Slots[r.Slot] = &SlotModel{Rep: r}
		m.Transitions++
		return true, "stored"
	case st.Banned:
		return false, "banned-slot"
	case st.Rep == r:
		return false, "replay"
	default:
		st.Banned = true
		m.Transitions++
		return true, "equivocation"
	}
}

// Rotate archives the first week of the window and shifts.
func (m *ServerModel) Rotate() {
	w := WeekModel{Offset: m.Offset, Devices: make(map[glow.PublicKey]*[2016]uint64)}
	for _, d := range m.Devices {
		var vals [2016]uint64
		for slot, st := range d.Slots {
			if slot >= m.Offset && slot < m.Offset+2016 {
				vals[slot-m.Offset] = st.Value()
			}
		}
		w.Devices[d.Auth.PublicKey] = &vals
	}
	m.Weeks = append(m.Weeks, w)
	m.Offset += 2016
	for _, d := range m.Devices {
		for slot := range d.Slots {
			if slot < m.Offset {
				delete(d.Slots, slot)
			}
		}
	}
}

// CatchUp applies the start-up rule: rotate while now-offset >= 4000.
func (m *ServerModel) CatchUp(now uint32) int {
	n := 0
	for int64(now)-int64(m.Offset) >= 4000 {
		m.Rotate()
		n++
	}
	return n
}

// AuthorizeServer applies a server authorization post; it reports whether the
// signature was accepted.
func (m *ServerModel) AuthorizeServer(as server.AuthorizedServer) bool {
	if !m.Registered || !VerifySig(m.GCA, ServerSigningBytes(as), as.GCAAuthorization) {
		return false
	}
	for i := range m.Servers {
		if m.Servers[i].PublicKey == as.PublicKey {
			if !m.Servers[i].Banned && as.Banned {
				m.Servers[i] = as
			}
			return true
		}
	}
	m.Servers = append(m.Servers, as)
	return true
}

// Migrate applies a migration order post.
func (m *ServerModel) Migrate(em server.EquipmentMigration) bool {
	if !m.Registered || !VerifySig(m.GCA, MigrationSigningBytes(em), em.Signature) {
		return false
	}
	for _, as := range em.NewServers {
		if !VerifySig(em.NewGCA, ServerSigningBytes(as), as.GCAAuthorization) {
			return false
		}
	}
	m.Migrations[em.Equipment] = em
	return true
}

// ---- comparison -----------------------------------------------------------

// CompareSnap checks the real snapshot against the model: GCA key, equipment,
// bans, per-slot records, offset, number and offsets of archived weeks.
func (m *ServerModel) CompareSnap(s *server.VerifSnap) error {
	if s.GCAAvailable != m.Registered {
		return fmt.Errorf("gca registered: real %v model %v", s.GCAAvailable, m.Registered)
	}
	if m.Registered && s.GCAKey != m.GCA {
		return fmt.Errorf("gca key: real %s model %s", RoleOf(s.GCAKey), RoleOf(m.GCA))
	}
	if s.Offset != m.Offset {
		return fmt.Errorf("window offset: real %d model %d", s.Offset, m.Offset)
	}
	if len(s.Equipment) != len(m.Devices) {
		return fmt.Errorf("equipment count: real %d model %d (real ids %v)", len(s.Equipment), len(m.Devices), mapKeysU32(s.Equipment))
	}
	for _, id := range mapKeysU32(m.Devices) {
		d := m.Devices[id]
		ra, ok := s.Equipment[id]
		if !ok {
			return fmt.Errorf("device %d authorized in model, missing in server", id)
		}
		if !AuthEqual(ra, d.Auth) {
			return fmt.Errorf("device %d authorization differs from the accepted one", id)
		}
		if sid, ok := s.ShortIDs[d.Auth.PublicKey]; !ok || sid != id {
			return fmt.Errorf("device %d: public key lookup gives (%d,%v)", id, sid, ok)
		}
	}
	if len(s.ShortIDs) != len(m.Devices) {
		return fmt.Errorf("public key index has %d entries for %d devices", len(s.ShortIDs), len(m.Devices))
	}
	if len(s.Bans) != len(m.Bans) {
		return fmt.Errorf("ban count: real %v model %v", s.Bans, sortedBans(m.Bans))
	}
	for _, id := range s.Bans {
		if !m.Bans[id] {
			return fmt.Errorf("device %d banned in server, not in model", id)
		}
	}
	if len(s.ReportKeys) != len(m.Devices) || len(s.RateKeys) != len(m.Devices) {
		return fmt.Errorf("window tables: reports for %v, rates for %v, devices %d", s.ReportKeys, s.RateKeys, len(m.Devices))
	}
	for _, id := range mapKeysU32(m.Devices) {
		d := m.Devices[id]
		slots, ok := s.Reports[id]
		if !ok {
			return fmt.Errorf("device %d has no report window", id)
		}
		seen := 0
		for _, sl := range slots {
			abs := s.Offset + sl.Index
			st := d.Slots[abs]
			if st == nil {
				return fmt.Errorf("device %d slot %d (index %d): server has %+v, model empty", id, abs, sl.Index, sl.Report.PowerOutput)
			}
			seen++
			if st.Banned {
				if sl.Report.PowerOutput != 1 {
					return fmt.Errorf("device %d slot %d: model banned, server value %d", id, abs, sl.Report.PowerOutput)
				}
				continue
			}
			got := Report{ID: sl.Report.ShortID, Slot: sl.Report.Timeslot, Power: sl.Report.PowerOutput, Sig: sl.Report.Signature}
			if got != st.Rep {
				return fmt.Errorf("device %d slot %d: stored record differs from the one accepted (value %d vs %d)", id, abs, got.Power, st.Rep.Power)
			}
		}
		if seen != len(d.Slots) {
			return fmt.Errorf("device %d: server holds %d slots, model %d", id, seen, len(d.Slots))
		}
	}
	if s.HistoryLen != len(m.Weeks) {
		return fmt.Errorf("archived weeks: real %d model %d", s.HistoryLen, len(m.Weeks))
	}
	for i, off := range s.HistoryOffs {
		if off != m.Weeks[i].Offset || off != uint32(i)*2016 {
			return fmt.Errorf("archived week %d has offset %d, want %d", i, off, i*2016)
		}
	}
	return nil
}

// CompareWeek checks a served or archived week against the model week.
func CompareWeek(w *WeekModel, ads *server.AllDeviceStats, serverKey glow.PublicKey) error {
	if ads.TimeslotOffset != w.Offset {
		return fmt.Errorf("week labelled %d, want %d", ads.TimeslotOffset, w.Offset)
	}
	if len(ads.Devices) != len(w.Devices) {
		return fmt.Errorf("week %d: %d devices served, model has %d", w.Offset, len(ads.Devices), len(w.Devices))
	}
	seen := map[glow.PublicKey]bool{}
	for i := range ads.Devices {
		d := &ads.Devices[i]
		vals, ok := w.Devices[d.PublicKey]
		if !ok {
			return fmt.Errorf("week %d: device %s served but not expected", w.Offset, RoleOf(d.PublicKey))
		}
		if seen[d.PublicKey] {
			return fmt.Errorf("week %d: device %s served twice", w.Offset, RoleOf(d.PublicKey))
		}
		seen[d.PublicKey] = true
		for j := range vals {
			if d.PowerOutputs[j] != vals[j] {
				return fmt.Errorf("week %d device %s slot index %d: served %d, model %d", w.Offset, RoleOf(d.PublicKey), j, d.PowerOutputs[j], vals[j])
			}
		}
	}
	if !VerifySig(serverKey, WeekSigningBytes(ads.Devices, ads.TimeslotOffset), ads.Signature) {
		return fmt.Errorf("week %d: signature does not verify under the server key over the documented layout", w.Offset)
	}
	return nil
}

// LiveWeek computes the model's view of a live week (0 = first half).
func (m *ServerModel) LiveWeek(half int) *WeekModel {
	off := m.Offset + uint32(half)*2016
	w := &WeekModel{Offset: off, Devices: make(map[glow.PublicKey]*[2016]uint64)}
	for _, d := range m.Devices {
		var vals [2016]uint64
		for slot, st := range d.Slots {
			if slot >= off && slot < off+2016 {
				vals[slot-off] = st.Value()
			}
		}
		w.Devices[d.Auth.PublicKey] = &vals
	}
	return w
}

func mapKeysU32[V any](m map[uint32]V) []uint32 {
	var ks []uint32
	for k := range m {
		ks = append(ks, k)
	}
	sort.Slice(ks, func(i, j int) bool { return ks[i] < ks[j] })
	return ks
}

// sortedPubKeys returns the keys of a map keyed by public key in byte order.
func sortedPubKeys[V any](m map[glow.PublicKey]V) []glow.PublicKey {
	var ks []glow.PublicKey
	for k := range m {
		ks = append(ks, k)
	}
	sort.Slice(ks, func(i, j int) bool { return bytes.Compare(ks[i][:], ks[j][:]) < 0 })
	return ks
}

func sortedBans(m map[uint32]bool) []uint32 { return mapKeysU32(m) }

// SortDevices sorts a device list by public key (canonical form of weekly
// statistics, whose device order is map iteration order).
func SortDevices(devs []server.DeviceStats) {
	sort.Slice(devs, func(i, j int) bool { return bytes.Compare(devs[i].PublicKey[:], devs[j].PublicKey[:]) < 0 })
}

// Digest is a compact canonical rendering of the model state (used for the
// distinct-states measure).
func (m *ServerModel) Digest() string {
	var sb bytes.Buffer
	fmt.Fprintf(&sb, "%v/%d/%d/%v|", m.Registered, m.Offset, len(m.Weeks), sortedBans(m.Bans))
	for _, id := range mapKeysU32(m.Devices) {
		d := m.Devices[id]
		fmt.Fprintf(&sb, "%d:", id)
		for _, slot := range mapKeysU32(d.Slots) {
			fmt.Fprintf(&sb, "%d=%d,", slot-m.Offset, d.Slots[slot].Value())
		}
		sb.WriteByte(';')
	}
	fmt.Fprintf(&sb, "|%d/%d", len(m.Servers), len(m.Migrations))
	return sb.String()
}

// Clone returns a deep copy of the model.
func (m *ServerModel) Clone() *ServerModel {
	c := &ServerModel{Registered: m.Registered, GCA: m.GCA, Temp: m.Temp, Offset: m.Offset, Transitions: m.Transitions,
		Devices: make(map[uint32]*DeviceModel), Bans: make(map[uint32]bool), Migrations: make(map[glow.PublicKey]server.EquipmentMigration)}
	for id, d := range m.Devices {
		nd := &DeviceModel{Auth: d.Auth, Slots: make(map[uint32]*SlotModel, len(d.Slots))}
		for s, st := range d.Slots {
			cp := *st
			nd.Slots[s] = &cp
		}
		c.Devices[id] = nd
	}
	for id := range m.Bans {
		c.Bans[id] = true
	}
	for _, w := range m.Weeks {
		nw := WeekModel{Offset: w.Offset, Devices: make(map[glow.PublicKey]*[2016]uint64)}
		for k, v := range w.Devices {
			cp := *v
			nw.Devices[k] = &cp
		}
		c.Weeks = append(c.Weeks, nw)
	}
	c.Servers = append(c.Servers, m.Servers...)
	for k, v := range m.Migrations {
		c.Migrations[k] = v
	}
	return c
}
