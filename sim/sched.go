package sim

// sched.go: the yield-point scheduler. Goroutines of the system under test call
// glow.VerifYield(owner, site) at scheduling points (tag verif). If the site is
// active for this run the goroutine registers itself and parks on its own
// channel, holding no lock. The driver waits for quiescence (synctest.Wait),
// looks at the sorted set of parked goroutines and releases exactly one, chosen
// by the Chooser. Between two decisions all activity is caused by that one
// release, so the execution does not depend on GOMAXPROCS or the Go scheduler.

import (
	"bytes"
	"fmt"
	"runtime"
	"sort"
	"strconv"
	"strings"
	"sync"
	"sync/atomic"
	"testing/synctest"
	"time"
)

// goid parses the goroutine id out of the stack header.
func goid() int64 {
	var buf [64]byte
	n := runtime.Stack(buf[:], false)
	f := bytes.Fields(buf[:n])
	if len(f) < 2 {
		return -1
	}
	id, err := strconv.ParseInt(string(f[1]), 10, 64)
	if err != nil {
		return -1
	}
	return id
}

// Parked describes one goroutine waiting at a yield point.
type Parked struct {
	Name  string // canonical goroutine name
	Node  string // node the code belongs to
	Site  string
	Owner interface{}
	ch    chan struct{}
	gid   int64
}

// Task is a driver-started activity.
type Task struct {
	Name     string
	done     chan struct{}
	finished atomic.Bool
	Panic    interface{}
	Stack    string
}

// Done reports whether the task function has returned.
func (t *Task) Done() bool { return t.finished.Load() }

// Sched is the scheduler state of one run.
type Sched struct {
	mu          sync.Mutex
	parked      map[int64]*Parked
	names       map[int64]string
	ownerNode   map[interface{}]string
	nodeCounter map[string]int
	// constructing is the node name given to the next unknown owner.
	constructing string
	// passThrough nodes never park (recovery incarnations).
	passThrough map[string]bool
	// siteOn decides whether a site parks in this run.
	siteOn func(node, site string) bool
	// hold lists goroutine names that Settle must not release.
	hold map[string]bool
	// extra sites enabled for this run.
	extra map[string]bool
	// notify wakes the driver when something parked.
	notify chan struct{}
	// pointFn receives VerifPoint callbacks.
	pointFn func(node, site string, owner interface{})
	// YieldFn observes every yield point that is passed (parking or not); it
	// runs on the goroutine of the system under test, outside critical
	// sections.
	YieldFn func(node, site string, owner interface{})

	// AutoOn enables the "auto." sites of the rewritten repository copy (A
	// flavour); LocksFree tells whether every mutex of a node is free.
	AutoOn    bool
	LocksFree func(node string) bool

	SiteHits map[string]int // how often each site was reached
	ParkHits map[string]int // how often a goroutine parked at each site
	steps    atomic.Int64   // progress counter for the watchdog
}

// knownYieldSites are the yield points of the pinned tree (hook commits in
// /repo). Any other name reaching the scheduler comes from the tree under test.
var knownYieldSites = map[string]bool{
	"archive.file": true, "archive.pubkey": true, "auth.preforward": true, "csync.postdial": true, "csync.postmerge": true,
	"csync.predial": true, "csync.premerge": true, "csync.resend": true, "csync.start": true, "csync.wake": true,
	"impact.listed": true, "impact.prelock": true, "impact.wake": true, "migrate.catchup": true, "migrate.checked": true,
	"migrate.prelock": true, "migrate.wake": true, "order.prelock": true, "send.tick": true, "send.wake": true,
	"srvauth.between": true, "srvauth.prenet": true, "stats.postlock": true, "sync.between": true, "week.listed": true,
	"week.prelock": true, "week.wake": true, "task.start": true,
}

// alwaysOn lists the sites at which goroutines woken by a timer (or freshly
// spawned) park in every run, so that the order of same-instant wake-ups is a
// recorded decision and never left to the Go scheduler.
var alwaysOn = map[string]bool{
	"migrate.wake": true, "impact.wake": true, "week.wake": true,
	"send.wake": true, "send.tick": true, "csync.wake": true, "csync.start": true, "csync.resend": true,
}

// EnableSites makes further sites park in this run.
func (s *Sched) EnableSites(sites ...string) {
	s.mu.Lock()
	for _, x := range sites {
		s.extra[x] = true
	}
	s.mu.Unlock()
}

// DisableSites turns extra sites off again.
func (s *Sched) DisableSites(sites ...string) {
	s.mu.Lock()
	for _, x := range sites {
		delete(s.extra, x)
	}
	s.mu.Unlock()
}

func newSched() *Sched {
	s := newSched0()
	s.siteOn = func(node, site string) bool { return alwaysOn[site] || s.extra[site] }
	return s
}

func newSched0() *Sched {
	return &Sched{
		extra:       make(map[string]bool),
		parked:      make(map[int64]*Parked),
		names:       make(map[int64]string),
		ownerNode:   make(map[interface{}]string),
		nodeCounter: make(map[string]int),
		passThrough: make(map[string]bool),
		hold:        make(map[string]bool),
		notify:      make(chan struct{}, 1),
		SiteHits:    make(map[string]int),
		ParkHits:    make(map[string]int),
	}
}

func (s *Sched) nodeOf(owner interface{}) string {
	n, ok := s.ownerNode[owner]
	if !ok {
		n = s.constructing
		if n == "" {
			n = "node?"
		}
		s.ownerNode[owner] = n
	}
	return n
}

// yield is installed as glow.VerifYieldHook.
func (s *Sched) yield(owner interface{}, site string) {
	gid := goid()
	s.mu.Lock()
	node := s.nodeOf(owner)
	s.SiteHits[site]++
	if fn := s.YieldFn; fn != nil {
		s.mu.Unlock()
		fn(node, site, owner)
		s.mu.Lock()
	}
	if strings.HasPrefix(site, "auto.") || !knownYieldSites[site] {
		// (A site name the pinned tree does not have was added by the change
		// under test: it marks a gap like an inserted site does.)
		// Inserted in front of a lock acquisition in the rewritten copy of the
		// repository (A flavour). Never park inside a critical section: a
		// goroutine that already holds a mutex of its node runs on.
		if !s.AutoOn || s.passThrough[node] || (s.LocksFree != nil && !s.LocksFree(node)) {
			s.mu.Unlock()
			return
		}
	} else if s.passThrough[node] || s.siteOn == nil || !s.siteOn(node, site) {
		s.mu.Unlock()
		return
	}
	name := s.names[gid]
	if name == "" {
		key := node + ":" + site
		name = key + "#" + strconv.Itoa(s.nodeCounter[key])
		s.nodeCounter[key]++
		s.names[gid] = name
	}
	p := &Parked{Name: name, Node: node, Site: site, Owner: owner, ch: make(chan struct{}), gid: gid}
	s.parked[gid] = p
	s.ParkHits[site]++
	s.mu.Unlock()
	select {
	case s.notify <- struct{}{}:
	default:
	}
	<-p.ch
}

// parkSelf parks the calling harness goroutine until the driver releases it.
func (s *Sched) parkSelf(node, site string) {
	gid := goid()
	s.mu.Lock()
	name := s.names[gid]
	p := &Parked{Name: name, Node: node, Site: site, ch: make(chan struct{}), gid: gid}
	s.parked[gid] = p
	s.mu.Unlock()
	select {
	case s.notify <- struct{}{}:
	default:
	}
	<-p.ch
}

// point is installed as glow.VerifPointHook.
func (s *Sched) point(owner interface{}, site string) {
	s.mu.Lock()
	node := s.nodeOf(owner)
	s.SiteHits[site]++
	fn := s.pointFn
	s.mu.Unlock()
	if fn != nil {
		fn(node, site, owner)
	}
}

// nameSelf gives the calling goroutine a canonical name.
func (s *Sched) nameSelf(name string) {
	gid := goid()
	s.mu.Lock()
	s.names[gid] = name
	s.mu.Unlock()
}

func (s *Sched) forget() {
	gid := goid()
	s.mu.Lock()
	delete(s.names, gid)
	s.mu.Unlock()
}

// Parked returns the releasable parked goroutines sorted by name.
func (s *Sched) Parked(includeHeld bool) []*Parked {
	s.mu.Lock()
	defer s.mu.Unlock()
	var ps []*Parked
	for _, p := range s.parked {
		if !includeHeld && (s.hold[p.Name] || s.hold[p.Node+":"+p.Site]) {
			continue
		}
		ps = append(ps, p)
	}
	sort.Slice(ps, func(i, j int) bool { return ps[i].Name < ps[j].Name })
	return ps
}

// Release lets one parked goroutine continue.
func (s *Sched) Release(p *Parked) {
	s.mu.Lock()
	delete(s.parked, p.gid)
	s.mu.Unlock()
	close(p.ch)
}

// Hold / Unhold control which goroutines Settle leaves parked; the key is a
// goroutine name or "node:site".
func (s *Sched) Hold(name string)   { s.mu.Lock(); s.hold[name] = true; s.mu.Unlock() }
func (s *Sched) Unhold(name string) { s.mu.Lock(); delete(s.hold, name); s.mu.Unlock() }

// ---------------------------------------------------------------------------

// Violation is raised (as a panic value on the driver goroutine) by oracles.
type Violation struct {
	Rule   string `json:"rule"`
	Site   string `json:"site"`
	Detail string `json:"detail"`
}

func (v *Violation) Error() string { return v.Rule + "@" + v.Site + ": " + v.Detail }

// Key is the identity used for known findings.
func (v *Violation) Key() string { return v.Rule + "@" + v.Site }

// Sim is the per-run simulation context shared by all worlds.
type Sim struct {
	C     *Chooser
	S     *Sched
	Prop  string
	Tier  string
	Dir   string // scratch directory of the run
	Start time.Time

	Faults map[string]int // fault kinds actually fired
	Probes map[string]int // rare conditions actually reached
	Sig    []string       // decision signature (site/op/fault kinds)
	Trace  []string       // human readable event log (bounded)
	Phase  string

	// QuiesceCheck is called at every quiescent point (try-lock probes).
	QuiesceCheck func()
	// AfterStep is called at every quiescent point, i.e. after the single
	// goroutine released by the previous decision has run as far as it can:
	// the place to apply model effects in exactly the order of the real ones.
	AfterStep func()
	// OnPark may run interfering operations when a goroutine parks at a
	// site; it returns true if it wants the goroutine kept parked.
	OnPark func(p *Parked)

	// ReleaseLog lists, in order, every goroutine release (name@site).
	ReleaseLog []string

	// LifeLimited is set when the run has server or client nodes (whose test
	// build panics after 120 s of life).
	LifeLimited bool
	statMu      sync.Mutex // only contended in the free-running race mode
	deferred    *Violation
	taskSeq     int
	inOnPark    bool
	Preempts    int
}

func (m *Sim) Fault(kind string) {
	m.statMu.Lock()
	m.Faults[kind]++
	m.Sig = append(m.Sig, "f:"+kind)
	m.statMu.Unlock()
}
func (m *Sim) Probe(name string) {
	m.statMu.Lock()
	m.Probes[name]++
	m.statMu.Unlock()
}
func (m *Sim) Logf(format string, a ...interface{}) {
	if len(m.Trace) < 4000 {
		m.Trace = append(m.Trace, fmt.Sprintf("t=%v ", time.Since(m.Start))+fmt.Sprintf(format, a...))
	}
}

// FailLater records a violation found on a goroutine of the system under test
// (where a panic would kill the process); the driver raises it at the next
// quiescent point.
func (m *Sim) FailLater(rule, site, format string, a ...interface{}) {
	m.statMu.Lock()
	if m.deferred == nil {
		m.deferred = &Violation{Rule: rule, Site: site, Detail: fmt.Sprintf(format, a...)}
	}
	m.statMu.Unlock()
}

// Fail reports a violation: it never returns.
func (m *Sim) Fail(rule, site, format string, a ...interface{}) {
	panic(&Violation{Rule: rule, Site: site, Detail: fmt.Sprintf(format, a...)})
}

// Settle runs the system to quiescence: as long as releasable goroutines are
// parked, one of them (chosen by the Chooser) is released.
func (m *Sim) Settle() {
	if MaxRunLife > 0 && m.LifeLimited && time.Since(m.Start) > MaxRunLife {
		panic(fmt.Sprintf("harness: run used %v of simulated time, the test build of the repo panics after 120s of life per node", time.Since(m.Start)))
	}
	for releases := 0; ; releases++ {
		synctest.Wait()
		m.S.steps.Add(1)
		progress.Add(1)
		if releases == MaxSettleReleases {
			site := "unknown"
			if n := len(m.ReleaseLog); n > 0 {
				site = m.ReleaseLog[n-1]
				if i := strings.Index(site, "@"); i >= 0 {
					site = site[i+1:]
				}
			}
			m.Fail(m.Prop+".stuck", "loop@"+site, "the system passed %d yield points at one instant of simulated time without coming to rest (last: %s): a loop that never ends (phase %s)", releases, site, m.Phase)
		}
		if m.deferred != nil {
			panic(m.deferred)
		}
		if m.AfterStep != nil {
			m.AfterStep()
		}
		if m.QuiesceCheck != nil {
			m.QuiesceCheck()
		}
		ps := m.S.Parked(false)
		if len(ps) == 0 {
			return
		}
		idx := 0
		if len(ps) > 1 {
			idx = m.C.Int("release", len(ps))
			if idx != 0 {
				m.Preempts++
			}
		}
		p := ps[idx]
		if m.OnPark != nil && !m.inOnPark {
			m.inOnPark = true
			m.S.Hold(p.Name)
			m.OnPark(p)
			m.S.Unhold(p.Name)
			m.inOnPark = false
		}
		m.Sig = append(m.Sig, "r:"+p.Site)
		m.ReleaseLog = append(m.ReleaseLog, p.Name+"@"+p.Site)
		m.S.Release(p)
	}
}

// Go starts fn as a named task goroutine; panics are captured in the task.
func (m *Sim) Go(name string, fn func()) *Task {
	m.taskSeq++
	t := &Task{Name: fmt.Sprintf("op%03d:%s", m.taskSeq, name), done: make(chan struct{})}
	go func() {
		m.S.nameSelf(t.Name)
		// Every task parks before its first instruction: when it starts to
		// run is a scheduler decision like any other.
		m.S.parkSelf("task", "task.start")
		defer func() {
			if r := recover(); r != nil {
				if v, ok := r.(*Violation); ok {
					// An oracle running inside a task (for example in a
					// VerifPoint callback) found a violation.
					t.Panic = v
				} else {
					buf := make([]byte, 16<<10)
					n := runtime.Stack(buf, false)
					t.Panic = r
					t.Stack = string(buf[:n])
				}
			}
			m.S.forget()
			t.finished.Store(true)
			close(t.done)
		}()
		fn()
	}()
	return t
}

// MaxRunLife bounds the simulated duration of a run (0 = unbounded). The test
// build of the repository panics when a server or client lives for 120 s.
var MaxRunLife time.Duration

// MaxSettleReleases bounds how many parked goroutines one Settle (one instant
// of simulated time) releases: a loop that passes yield points for ever makes
// "progress" for the watchdog but never reaches quiescence.
var MaxSettleReleases = 5000

// MaxTaskWait bounds the simulated time a single operation may take.
var MaxTaskWait = 10 * time.Minute

// Finish drives the system until the task has returned.
func (m *Sim) Finish(t *Task) {
	var deadline *time.Timer
	for {
		m.Settle()
		if t.Done() {
			if deadline != nil {
				deadline.Stop()
			}
			if v, ok := t.Panic.(*Violation); ok {
				panic(v)
			}
			return
		}
		if deadline == nil {
			deadline = time.NewTimer(MaxTaskWait)
		}
		select {
		case <-m.S.notify:
		case <-t.done:
		case <-deadline.C:
			site := t.Name
			if i := strings.Index(site, ":"); i >= 0 && strings.HasPrefix(site, "op") {
				site = site[i+1:] // without the running number: one finding, not one per run
			}
			m.Fail(m.Prop+".stuck", site, "operation did not finish within %v of simulated time (phase %s)", MaxTaskWait, m.Phase)
		}
	}
}

// Do runs fn as a task to completion and returns the task (check t.Panic).
func (m *Sim) Do(name string, fn func()) *Task {
	t := m.Go(name, fn)
	m.Finish(t)
	return t
}

// Advance lets d of simulated time pass. Whenever a goroutine parks (a
// background loop woke up), the driver settles at that simulated instant.
func (m *Sim) Advance(d time.Duration) {
	if d <= 0 {
		m.Settle()
		return
	}
	t := time.NewTimer(d)
	for {
		select {
		case <-m.S.notify:
			m.Settle()
		case <-t.C:
			m.Settle()
			return
		}
	}
}
