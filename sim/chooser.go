package sim

// chooser.go: the single source of every random decision of a run.
//
// One run is fully determined by (property, seed, run index) in generation mode
// or by a tape (list of integers) in replay mode. Every decision is drawn
// through Chooser.Int with a label; the sequence of drawn values is the tape.
// Replaying a tape uses value%n at every draw and 0 once the tape is exhausted,
// so every integer list is a valid tape, which is what makes delta-debugging of
// tapes possible. Generators are written so that 0 is the simplest choice
// (no fault, deliver normally, stop generating).

import (
	"crypto/sha256"
	"encoding/binary"
	"fmt"
	"hash/fnv"
	"math/rand/v2"
	"os"
	"sync"
)

// Draw is one recorded decision.
type Draw struct {
	L string `json:"l"`
	N int    `json:"n"`
	V int    `json:"v"`
}

// Chooser produces decisions and records them.
type Chooser struct {
	// mu guards the tape: policies are called on goroutines of the system under
	// test (one at a time by construction - see Keyed for the exception - but
	// never without a lock).
	mu     sync.Mutex
	rng    *rand.Rand
	tape   []int
	replay bool
	pos    int
	Rec    []Draw
	// Labels of the original run, when an exact replay is requested. A
	// mismatch means the replay diverged from the recording.
	expect   []Draw
	Diverged string
	// KeepLabels controls whether labels are stored (they are only needed
	// for replay files and traces).
	maxRec int
	// stream, if set, receives every drawn value at once (used to recover the
	// tape of a run that kills the process).
	stream *os.File
}

func seedFor(seed int64, run int, prop string) (uint64, uint64) {
	h := fnv.New64a()
	fmt.Fprintf(h, "%s/%d/%d", prop, seed, run)
	a := h.Sum64()
	fmt.Fprintf(h, "/second")
	return a, h.Sum64()
}

// NewChooser returns a generating chooser for one run.
func NewChooser(prop string, seed int64, run int) *Chooser {
	a, b := seedFor(seed, run, prop)
	return &Chooser{rng: rand.New(rand.NewPCG(a, b)), maxRec: 1 << 20}
}

// NewReplayChooser returns a chooser that replays a tape.
func NewReplayChooser(tape []int, expect []Draw) *Chooser {
	return &Chooser{tape: tape, replay: true, expect: expect, maxRec: 1 << 20}
}

// Int returns a value in [0,n). n<=1 returns 0 without consuming anything.
func (c *Chooser) Int(label string, n int) int {
	if n <= 1 {
		return 0
	}
	c.mu.Lock()
	defer c.mu.Unlock()
	var v int
	if c.replay {
		if c.pos < len(c.tape) {
			v = c.tape[c.pos] % n
			if v < 0 {
				v = -v
			}
		}
	} else {
		v = c.rng.IntN(n)
	}
	if c.expect != nil && c.Diverged == "" {
		if c.pos >= len(c.expect) {
			c.Diverged = fmt.Sprintf("draw %d (%s) beyond the recorded %d draws", c.pos, label, len(c.expect))
		} else if c.expect[c.pos].L != label || c.expect[c.pos].N != n {
			c.Diverged = fmt.Sprintf("draw %d: recorded %s/%d, replay asks %s/%d", c.pos, c.expect[c.pos].L, c.expect[c.pos].N, label, n)
		}
	}
	c.pos++
	if c.stream != nil {
		fmt.Fprintf(c.stream, "%d\n", v)
	}
	if len(c.Rec) < c.maxRec {
		c.Rec = append(c.Rec, Draw{label, n, v})
	}
	return v
}

// Chance returns true with probability num/den. A zero draw is false.
func (c *Chooser) Chance(label string, num, den int) bool {
	if num <= 0 {
		return false
	}
	if num >= den {
		return true
	}
	return c.Int(label, den) >= den-num
}

// Weighted returns an index with probability proportional to its weight.
// Index 0 corresponds to a zero draw, list the simplest option first.
func (c *Chooser) Weighted(label string, weights ...int) int {
	total := 0
	for _, w := range weights {
		total += w
	}
	if total <= 0 {
		return 0
	}
	v := c.Int(label, total)
	for i, w := range weights {
		if v < w {
			return i
		}
		v -= w
	}
	return len(weights) - 1
}

// Range returns a value in [lo,hi].
func (c *Chooser) Range(label string, lo, hi int) int {
	if hi <= lo {
		return lo
	}
	return lo + c.Int(label, hi-lo+1)
}

// U64 returns an arbitrary 64 bit value (two draws).
func (c *Chooser) U64(label string) uint64 {
	hi := uint64(c.Int(label+".hi", 1<<31))
	lo := uint64(c.Int(label+".lo", 1<<31))
	top := uint64(c.Int(label+".top", 4))
	return top<<62 | hi<<31 | lo
}

// Perm returns a permutation of [0,n); all zero draws give the identity.
func (c *Chooser) Perm(label string, n int) []int {
	p := make([]int, n)
	for i := range p {
		p[i] = i
	}
	for i := 0; i < n-1; i++ {
		j := i + c.Int(label, n-i)
		p[i], p[j] = p[j], p[i]
	}
	return p
}

// Tape returns the recorded values.
func (c *Chooser) Tape() []int {
	t := make([]int, len(c.Rec))
	for i, d := range c.Rec {
		t[i] = d.V
	}
	return t
}

// Keyed derives decisions that may be asked for by goroutines of the system
// under test running side by side (two background jobs whose timers expire at
// the same simulated instant both reach the WattTime responder): the order in
// which such goroutines would draw from the tape is not a scheduler decision,
// so they must not draw from it. One key per run comes from the tape (drawn by
// the driver when the policy is installed); every decision is a pure function
// of that key and of what the caller passes (label, request path, simulated
// time), so identical requests at one instant get one answer whichever
// goroutine asks first, and a replay of the tape reproduces all of them.
type Keyed struct{ key uint64 }

// NewKeyed draws the key of a run (call it on the driver goroutine).
func NewKeyed(c *Chooser, label string) *Keyed { return &Keyed{key: c.U64(label)} }

func (k *Keyed) hash(parts ...interface{}) uint64 {
	h := sha256.New()
	var b [8]byte
	binary.LittleEndian.PutUint64(b[:], k.key)
	h.Write(b[:])
	fmt.Fprint(h, parts...)
	return binary.LittleEndian.Uint64(h.Sum(nil)[:8])
}

// Int returns a value in [0,n).
func (k *Keyed) Int(n int, parts ...interface{}) int {
	if n <= 1 {
		return 0
	}
	return int(k.hash(parts...) % uint64(n))
}

// Chance is true with probability num/den.
func (k *Keyed) Chance(num, den int, parts ...interface{}) bool {
	return k.Int(den, parts...) < num
}

// Weighted returns an index chosen with the given weights.
func (k *Keyed) Weighted(weights []int, parts ...interface{}) int {
	total := 0
	for _, w := range weights {
		total += w
	}
	v := k.Int(total, parts...)
	for i, w := range weights {
		if v < w {
			return i
		}
		v -= w
	}
	return len(weights) - 1
}
