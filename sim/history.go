//go:build test

package sim

// history.go: the generator of server histories shared by C03-C07 and C13:
// registrations, authorizations (new, duplicate, conflicting, badly signed),
// reports (valid, equivocating, over capacity, replayed), protocol clock
// advances of any size, simulated time passing (the real rotation and impact
// loops run), restarts, statistics queries. Every operation is applied to the
// real server and to the reference model, and the rotation observer checks
// every rotation the real server performs.

import (
	"bytes"
	"encoding/binary"
	"fmt"
	"math"
	"reflect"
	"time"

	"github.com/glowlabs-org/gca-backend/glow"
	"github.com/glowlabs-org/gca-backend/server"
)

// ParseStatsFile is the independent decoder of allDeviceStats.dat: a stream of
// records (u32 device count, per device 32 byte key + 2016 u64 + 2016 f64,
// u32 offset, 64 byte signature).
func ParseStatsFile(b []byte) ([]server.AllDeviceStats, error) {
	var out []server.AllDeviceStats
	for len(b) > 0 {
		if len(b) < 4 {
			return out, fmt.Errorf("trailing %d bytes", len(b))
		}
		n := int(binary.LittleEndian.Uint32(b))
		need := 4 + n*(32+16*2016) + 4 + 64
		if n > 1<<20 || len(b) < need {
			return out, fmt.Errorf("record of %d devices needs %d bytes, %d left", n, need, len(b))
		}
		p := b[4:]
		ads := server.AllDeviceStats{Devices: make([]server.DeviceStats, n)}
		for i := 0; i < n; i++ {
			copy(ads.Devices[i].PublicKey[:], p[:32])
			p = p[32:]
			for j := 0; j < 2016; j++ {
				ads.Devices[i].PowerOutputs[j] = binary.LittleEndian.Uint64(p[8*j:])
			}
			p = p[8*2016:]
			for j := 0; j < 2016; j++ {
				ads.Devices[i].ImpactRates[j] = math.Float64frombits(binary.LittleEndian.Uint64(p[8*j:]))
			}
			p = p[8*2016:]
		}
		ads.TimeslotOffset = binary.LittleEndian.Uint32(p)
		copy(ads.Signature[:], p[4:68])
		out = append(out, ads)
		b = b[need:]
	}
	return out, nil
}

// rotCapture is what the rotation observer records at the observation points
// inside migrateReports (under the server lock).
type rotCapture struct {
	node      string
	offset    uint32
	equipment map[uint32]glow.EquipmentAuthorization
	reports   map[uint32]*[4032]glow.EquipmentReport
	rates     map[uint32]*[4032]float64
	post      bool
	postOff   uint32
	postRep   map[uint32]*[4032]glow.EquipmentReport
	postRates map[uint32]*[4032]float64
	histLen   int
	slotNow   uint32
}

// Hist drives one server through a generated history.
type Hist struct {
	W       *World
	N       *ServerNode
	GCA     *KeyPair // the candidate that the harness tries to register
	Devs    []*Device
	NextID  uint32
	Sent    [][]byte
	Rots    []*rotCapture // rotations observed and not yet checked
	RotSeen int
	// FirstSeen remembers the first canonical form of each archived week.
	FirstSeen map[int][]byte
	Rule      string // rule prefix for failures, e.g. "C03"
	// WideIDs lets NewDevice pick ids at the extremes of the 32 bit range.
	WideIDs bool
	// ImpactAt remembers rates captured at rotations: week index -> key -> rates
	WeekRates map[int]map[glow.PublicKey][2016]float64
}

func NewHist(w *World, name string, rule string) *Hist {
	h := &Hist{W: w, Rule: rule, NextID: 10, FirstSeen: map[int][]byte{}, WeekRates: map[int]map[glow.PublicKey][2016]float64{}}
	h.N = w.AddServer(name, "temp-"+name, true)
	h.GCA = Key("gcaA")
	w.S.pointFn = h.point
	return h
}

// point is the VerifPoint callback: it runs on the goroutine of the system
// under test, possibly inside a critical section: record only.
func (h *Hist) point(node, site string, owner interface{}) {
	s, ok := owner.(*server.GCAServer)
	if !ok || node != h.N.Name {
		return
	}
	switch site {
	case "migrate.before-shift":
		snap := s.VerifSnapshot(false)
		c := &rotCapture{node: node, offset: snap.Offset, equipment: snap.Equipment, reports: map[uint32]*[4032]glow.EquipmentReport{}, rates: map[uint32]*[4032]float64{}, histLen: snap.HistoryLen, slotNow: Slot()}
		for _, id := range snap.ReportKeys {
			r, f, _ := s.VerifWindow(id, false)
			c.reports[id] = &r
			c.rates[id] = &f
		}
		h.Rots = append(h.Rots, c)
	case "migrate.after-shift":
		if len(h.Rots) == 0 {
			return
		}
		c := h.Rots[len(h.Rots)-1]
		snap := s.VerifSnapshot(false)
		c.post = true
		c.postOff = snap.Offset
		c.postRep = map[uint32]*[4032]glow.EquipmentReport{}
		c.postRates = map[uint32]*[4032]float64{}
		for _, id := range snap.ReportKeys {
			r, f, _ := s.VerifWindow(id, false)
			c.postRep[id] = &r
			c.postRates[id] = &f
		}
	}
}

// Boot starts the server.
func (h *Hist) Boot() { h.N.Boot() }

// Setup registers the GCA and authorizes nd devices.
func (h *Hist) Setup(nd int) {
	h.N.DoRegister(h.GCA.Pub, h.N.Temp)
	for i := 0; i < nd; i++ {
		h.NewDevice([]uint64{1000, 0, 7, 1 << 40}[h.W.C.Int("cap", 4)])
	}
}

// NewDevice authorizes a fresh device (fresh id, fresh key).
func (h *Hist) NewDevice(capacity uint64) *Device {
	i := len(h.Devs)
	d := &Device{Role: fmt.Sprintf("dev%d", i), ID: h.NextID, Key: Key(fmt.Sprintf("dev%d", i))}
	h.NextID++
	if h.WideIDs && h.W.C.Chance("wide-id", 1, 3) {
		// Ids at the far ends of the 32 bit range (never colliding with the
		// small consecutive ones).
		d.ID = []uint32{1<<32 - 1, 1 << 31, 1<<31 - 1, 1<<24 + 7, 0}[i%5] - uint32(i/5)
	}
	d.Auth = StdAuth(h.GCA, d.ID, d.Key, capacity)
	if len(h.Devs) > 0 && h.W.C.Chance("co-located", 1, 3) {
		// Two devices on one site: bit-identical coordinates.
		o := h.Devs[h.W.C.Int("site-of", len(h.Devs))].Auth
		d.Auth.Latitude, d.Auth.Longitude = o.Latitude, o.Longitude
		d.Auth = SignAuth(h.GCA, d.Auth)
		h.W.Probe("hist.co-located")
	}
	h.N.DoAuthorize(d.Auth)
	h.Devs = append(h.Devs, d)
	return d
}

// live returns the devices that are authorized in the model.
func (h *Hist) live() []*Device {
	var out []*Device
	for _, d := range h.Devs {
		if _, ok := h.N.Model.Devices[d.ID]; ok {
			out = append(out, d)
		}
	}
	return out
}

// OpReport sends one report of a seeded kind.
func (h *Hist) OpReport() {
	c := h.W.C
	if len(h.Devs) == 0 {
		return
	}
	d := h.Devs[c.Int("dev", len(h.Devs))]
	now := Slot()
	var slot uint32
	switch c.Weighted("slot", 5, 2, 1, 1) {
	case 0:
		back := uint32(c.Int("back", 6))
		if back > now {
			back = now
		}
		slot = now - back
	case 1:
		back := uint32(c.Int("back", 433))
		if back > now {
			back = now
		}
		slot = now - back
	case 2:
		slot = now + uint32(c.Int("fwd", 433))
	case 3:
		slot = h.N.Model.Offset + uint32(c.Int("inwin", 4032))
	}
	lim := c02Limit(d.Auth.Capacity)
	v := []uint64{500, 600, 2, 3, lim + 1, 1 << 63, 1<<64 - 300, lim, 24}[c.Weighted("value", 6, 3, 1, 1, 1, 1, 1, 1, 1)]
	if v < 2 {
		v = 2
	}
	if c.Chance("sentinel-reading", 1, 16) {
		// A genuinely signed report whose reading is one of the two reserved
		// values (0 = empty slot, 1 = banned slot): refused without a trace,
		// whatever happens later (restart, rotation).
		v = uint64(c.Int("sentinel", 2))
		h.W.Probe("hist.sentinel-reading")
	}
	var b []byte
	if len(h.Sent) > 0 && c.Chance("replay", 1, 6) {
		b = h.Sent[c.Int("which", len(h.Sent))]
		if r, ok := DecodeReport(b); ok && c.Chance("resigned", 1, 3) {
			// The same content under a second valid signature: bytewise
			// another report, an equivocation by the rule of C02.
			for _, dv := range h.Devs {
				if dv.ID == r.ID {
					r.Sig = SignWithNonce(dv.Key, ReportSigningBytes(r.ID, r.Slot, r.Power), uint64(1+c.Int("nonce", 3)))
					b = r.Encode()
					h.W.Probe("hist.resigned-report")
				}
			}
		}
	} else {
		b = SignedReport(d.Key, d.ID, slot, v).Encode()
		h.Sent = append(h.Sent, b)
	}
	_, why := h.N.DoDatagram(b)
	h.W.Logf("report dev=%d slot=%d v=%d -> %s", d.ID, slot, v, why)
}

// OpReportBurst sends a run of reports for consecutive recent slots (dense
// weeks make value-dependent defects visible).
func (h *Hist) OpReportBurst() {
	c := h.W.C
	live := h.live()
	if len(live) == 0 {
		return
	}
	d := live[c.Int("dev", len(live))]
	now := Slot()
	k := 10 + c.Int("burst", 40)
	for i := 0; i < k; i++ {
		if uint32(i) > now {
			break
		}
		slot := now - uint32(i)
		b := SignedReport(d.Key, d.ID, slot, uint64(100+c.Int("bv", 900))).Encode()
		h.Sent = append(h.Sent, b)
		h.N.DoDatagram(b)
	}
	h.W.Probe("hist.burst")
}

// OpAuthorize submits an authorization of a seeded kind.
func (h *Hist) OpAuthorize() AuthResult {
	c := h.W.C
	kind := c.Weighted("auth", 3, 2, 3, 2, 1)
	if len(h.Devs) == 0 {
		kind = 0
	}
	switch kind {
	case 0: // new device
		if len(h.Devs) >= 5 {
			return h.N.DoAuthorize(h.Devs[0].Auth)
		}
		h.NewDevice([]uint64{1000, 0, 7, 1 << 40}[c.Int("cap", 4)])
		h.W.Logf("authorize new id=%d", h.NextID-1)
		return AuthNew
	case 1: // exact duplicate
		d := h.Devs[c.Int("dev", len(h.Devs))]
		r := h.N.DoAuthorize(d.Auth)
		h.W.Logf("authorize duplicate id=%d -> %s", d.ID, r)
		return r
	case 2: // conflict differing in one field
		d := h.Devs[c.Int("dev", len(h.Devs))]
		a := d.Auth
		f := c.Int("field", 9)
		switch f {
		case 0:
			a.Capacity++
		case 1:
			a.Latitude = math.Float64frombits(math.Float64bits(a.Latitude) ^ 1)
		case 2:
			a.Longitude = -a.Longitude
		case 3:
			a.Debt++
		case 4:
			// earlier or later: a renewal is a conflict like any other
			if c.Chance("expiration-later", 1, 2) {
				a.Expiration++
			} else {
				a.Expiration--
			}
		case 5:
			a.Initialization++
		case 6:
			a.ProtocolFee++
		case 7:
			a.PublicKey = Key(fmt.Sprintf("fresh%d", h.NextID)).Pub
			h.NextID++
		case 8: // reuses another device's key
			o := h.Devs[(int(d.ID-10)+1)%len(h.Devs)]
			a.PublicKey = o.Key.Pub
			if o != d {
				h.W.Probe("c06.conflict-key-reuse")
			}
		}
		a = SignAuth(h.GCA, a)
		if AuthEqual(a, d.Auth) {
			return AuthDuplicate
		}
		r := h.N.DoAuthorize(a)
		h.W.Logf("authorize conflict id=%d field=%d -> %s", d.ID, f, r)
		h.W.Probe("hist.conflict")
		return r
	case 3: // bad or foreign signature
		d := h.Devs[c.Int("dev", len(h.Devs))]
		if c.Chance("tampered-copy", 1, 2) {
			// A copy of a genuine authorization (they are public) with one
			// field altered and the original signature kept.
			a := d.Auth
			switch c.Int("tamper-field", 7) {
			case 6:
				// Nothing altered but the signature itself: its other root
				// (s -> N-s), which anybody can compute. Bytewise a second,
				// different authorization for the id if it were accepted.
				a.Signature = MalleateSig(a.Signature)
				h.W.Probe("hist.malleated-authorization")
			case 0:
				a.Capacity += 1000
			case 1:
				a.Latitude += 1
			case 2:
				a.Debt ^= 1
			case 3:
				a.PublicKey = Key("thief").Pub
			case 4:
				a.ShortID = h.NextID + 200 // the same signature presented for another id
			case 5:
				a.Expiration ^= 1 << 31
			}
			r := h.N.DoAuthorize(a)
			h.W.Logf("authorize tampered copy of id=%d -> %s", d.ID, r)
			h.W.Probe("hist.tampered-copy")
			return r
		}
		a := d.Auth
		a.ShortID = h.NextID + 100
		a.PublicKey = Key("neverauthorized").Pub
		signer := []*KeyPair{h.N.Temp, h.N.Key, d.Key, Key("gcaB")}[c.Int("signer", 4)]
		if signer == nil || signer.Priv == (glow.PrivateKey{}) {
			signer = h.N.Temp // the server generated its own key, the harness does not hold it
		}
		a = SignAuth(signer, a)
		if c.Chance("zero-sig", 1, 4) {
			a.Signature = glow.Signature{}
		}
		r := h.N.DoAuthorize(a)
		h.W.Logf("authorize foreign signer=%s -> %s", signer.Role, r)
		return r
	default: // submission for a banned id (if any), else duplicate
		if ids := mapKeysU32(h.N.Model.Bans); len(ids) > 0 {
			id := ids[0]
			if len(ids) > 1 {
				id = ids[c.Int("banned-id", len(ids))]
			}
			a := StdAuth(h.GCA, id, Key(fmt.Sprintf("again%d", id)), 5)
			r := h.N.DoAuthorize(a)
			h.W.Logf("authorize banned id=%d -> %s", id, r)
			h.W.Probe("hist.auth-for-banned")
			return r
		}
		return h.N.DoAuthorize(h.Devs[0].Auth)
	}
}

// OpClock advances the protocol clock.
func (h *Hist) OpClock() {
	c := h.W.C
	now := Slot()
	var adv uint32
	switch c.Weighted("clock", 5, 3, 2, 1) {
	case 0:
		adv = 1 + uint32(c.Int("adv", 12))
	case 1:
		adv = 100 + uint32(c.Int("adv", 900))
	case 2: // move just past the rotation trigger
		tgt := h.N.Model.Offset + 3201 + uint32(c.Int("past", 200))
		if tgt > now {
			adv = tgt - now
		} else {
			adv = 1
		}
	case 3:
		adv = 2016 + uint32(c.Int("adv", 7000))
	}
	SetSlot(now + adv)
	h.W.Logf("clock +%d -> %d (offset %d)", adv, now+adv, h.N.Model.Offset)
}

// OpTime lets simulated time pass so that the real loops run, then checks the
// rotations they performed.
func (h *Hist) OpTime(d time.Duration) {
	before := h.N.Model.Offset
	now := Slot()
	h.W.Advance(d)
	h.AfterRotations()
	k := int((h.N.Model.Offset - before) / 2016)
	// Trigger rule of the running server: rotate only while now-offset > 3200.
	needed := 0
	for off := int64(before); int64(now)-off > 3200; off += 2016 {
		needed++
	}
	if k > needed {
		h.W.Fail(h.Rule+".trigger", "loop", "%d rotations performed at now=%d offset=%d, at most %d are due (trigger: now-offset > 3200)", k, now, before, needed)
	}
	periods := int(d / ReportMigrationPeriod)
	if needed > 0 && periods >= 1 && k == 0 {
		h.W.Fail(h.Rule+".trigger", "loop", "no rotation within %v although now=%d is %d slots past offset %d", d, now, int64(now)-int64(before), before)
	}
	if k > 0 {
		h.W.Probe("hist.rotation")
	}
	if k > 1 {
		h.W.Probe("hist.multi-rotation")
	}
}

// AfterRotations checks every rotation observed since the last call and
// applies it to the model.
func (h *Hist) AfterRotations() { h.applyRotations(true) }

// applyRotations checks the observed rotations and applies them to the model;
// with check=false the final model comparison is left to the caller (an
// operation may be half-way through its own model update).
func (h *Hist) applyRotations(check bool) {
	n := h.N
	for _, c := range h.Rots {
		if !c.post {
			h.W.Fail(h.Rule+".rotate", "incomplete", "a rotation started (offset %d) but did not complete", c.offset)
		}
		if int64(c.slotNow)-int64(c.offset) <= 3200 {
			h.W.Fail(h.Rule+".trigger", "early", "rotation performed at now=%d with window offset %d: only %d slots past the offset (trigger is > 3200)", c.slotNow, c.offset, int64(c.slotNow)-int64(c.offset))
		}
		if c.offset != n.Model.Offset {
			h.W.Fail(h.Rule+".rotate", "offset", "rotation started at offset %d, model is at %d", c.offset, n.Model.Offset)
		}
		// (c) archived == pre[0:2016], live[0:2016] == pre[2016:], live[2016:] blank.
		if c.postOff != c.offset+2016 {
			h.W.Fail(h.Rule+".rotate", "offset", "offset went from %d to %d in one rotation", c.offset, c.postOff)
		}
		for _, id := range mapKeysU32(c.reports) {
			pre := c.reports[id]
			post, ok := c.postRep[id]
			if !ok {
				h.W.Fail(h.Rule+".rotate", "lost-device", "device %d lost its window during a rotation", id)
			}
			var blank glow.EquipmentReport
			for i := 0; i < 2016; i++ {
				if post[i] != pre[2016+i] {
					h.W.Fail(h.Rule+".rotate", "shift", "device %d: slot index %d after the rotation differs from index %d before it", id, i, 2016+i)
				}
				if post[2016+i] != blank {
					h.W.Fail(h.Rule+".rotate", "blank", "device %d: slot index %d not blank after the rotation", id, 2016+i)
				}
			}
			pr, po := c.rates[id], c.postRates[id]
			for i := 0; i < 2016; i++ {
				if math.Float64bits(po[i]) != math.Float64bits(pr[2016+i]) || po[2016+i] != 0 {
					h.W.Fail(h.Rule+".rotate", "rates", "device %d: impact rate at index %d not moved unchanged by the rotation", id, i)
				}
			}
		}
		// The archived record: exactly the devices authorized and not banned
		// at rotation time, values and rates of the first half.
		week := len(n.Model.Weeks)
		h.W.Logf("rotation observed: offset %d at now=%d, week %d", c.offset, c.slotNow, week)
		n.Model.Rotate()
		ads, ok := n.S.VerifHistoryWeek(week)
		if !ok {
			h.W.Fail(h.Rule+".contig", "missing", "week %d not in the archive after its rotation", week)
		}
		if err := CompareWeek(&n.Model.Weeks[week], &ads, n.Key.Pub); err != nil {
			h.W.Fail(h.Rule+".week", "archived", "%v", err)
		}
		rates := map[glow.PublicKey][2016]float64{}
		for i := range ads.Devices {
			d := &ads.Devices[i]
			id, ok := idOfKey(c.equipment, d.PublicKey)
			if !ok {
				h.W.Fail(h.Rule+".week", "archived", "archived week %d lists a key that was not authorized at rotation time", week)
			}
			pre := c.rates[id]
			for j := 0; j < 2016; j++ {
				if math.Float64bits(d.ImpactRates[j]) != math.Float64bits(pre[j]) {
					h.W.Fail(h.Rule+".rotate", "rates", "week %d device %d: archived impact rate %d = %v, window held %v", week, id, j, d.ImpactRates[j], pre[j])
				}
				if d.PowerOutputs[j] != pre2val(c.reports[id][j]) {
					h.W.Fail(h.Rule+".rotate", "values", "week %d device %d: archived value %d = %d, window held %d", week, id, j, d.PowerOutputs[j], c.reports[id][j].PowerOutput)
				}
			}
			rates[d.PublicKey] = d.ImpactRates
		}
		h.WeekRates[week] = rates
		SortDevices(ads.Devices)
		h.FirstSeen[week] = canonWeek(&ads)
		h.RotSeen++
	}
	h.Rots = nil
	if check {
		n.Check(h.Rule+".model", "after-rotations")
		h.CheckStatsFile()
	}
}

func pre2val(r glow.EquipmentReport) uint64 { return r.PowerOutput }

func idOfKey(eq map[uint32]glow.EquipmentAuthorization, k glow.PublicKey) (uint32, bool) {
	for _, id := range mapKeysU32(eq) {
		if eq[id].PublicKey == k {
			return id, true
		}
	}
	return 0, false
}

// canonWeek renders a week with devices sorted by key, including signature.
func canonWeek(ads *server.AllDeviceStats) []byte {
	var b bytes.Buffer
	for i := range ads.Devices {
		b.Write(ads.Devices[i].PublicKey[:])
		binary.Write(&b, binary.LittleEndian, ads.Devices[i].PowerOutputs[:])
		for _, f := range ads.Devices[i].ImpactRates {
			binary.Write(&b, binary.LittleEndian, math.Float64bits(f))
		}
	}
	binary.Write(&b, binary.LittleEndian, ads.TimeslotOffset)
	return b.Bytes()
}

// CheckStatsFile parses allDeviceStats.dat and checks contiguity and equality
// with the archive in memory.
func (h *Hist) CheckStatsFile() {
	n := h.N
	recs, err := ParseStatsFile(n.ReadFile("allDeviceStats.dat"))
	if err != nil {
		h.W.Fail(h.Rule+".contig", "file", "allDeviceStats.dat does not parse: %v", err)
	}
	if len(recs) != len(n.Model.Weeks) {
		h.W.Fail(h.Rule+".contig", "file", "allDeviceStats.dat holds %d weeks, %d were archived", len(recs), len(n.Model.Weeks))
	}
	for i := range recs {
		if recs[i].TimeslotOffset != uint32(i)*2016 {
			h.W.Fail(h.Rule+".contig", "file", "record %d of allDeviceStats.dat has offset %d", i, recs[i].TimeslotOffset)
		}
		if !VerifySig(n.Key.Pub, WeekSigningBytes(recs[i].Devices, recs[i].TimeslotOffset), recs[i].Signature) {
			h.W.Fail(h.Rule+".sig", "file", "record %d of allDeviceStats.dat does not verify under the server key", i)
		}
		SortDevices(recs[i].Devices)
		if first, ok := h.FirstSeen[i]; ok && !bytes.Equal(first, canonWeek(&recs[i])) {
			h.W.Fail(h.Rule+".immutable", "file", "week %d in allDeviceStats.dat differs from the record first archived", i)
		}
	}
}

// OpRestart restarts the server gracefully and checks C04's statement.
func (h *Hist) OpRestart(times int) {
	n := h.N
	before := n.Snap()
	for i := 0; i < times; i++ {
		n.Stop()
		h.Rots = nil
		if err := n.Start(); err != nil {
			h.W.Fail(h.Rule+".start", "restart", "server does not start again on its directory: %v", err)
		}
		// Start-up rule: rotate while now-offset >= 4000, then the loop's first
		// iteration rotates once more if now-offset > 3200.
		want := 0
		off := int64(before.Offset)
		for int64(Slot())-off >= 4000 {
			off += 2016
			want++
		}
		if int64(Slot())-off > 3200 {
			want++
		}
		got := len(h.Rots)
		h.AfterRotations() // checks the catch-up rotations performed by start-up
		if got != want {
			h.W.Fail(h.Rule+".trigger", "startup", "start-up at now=%d with offset %d performed %d rotations, the documented rule gives %d", Slot(), before.Offset, got, want)
		}
		if want > 1 {
			h.W.Probe("hist.catchup-multi")
		}
		after := n.Snap()
		if want == 0 {
			if err := restartEqual(before, after); err != nil {
				rule := h.Rule + ".equal"
				if i > 0 {
					rule = h.Rule + ".idem"
				}
				h.W.Fail(rule, "restart", "%v", err)
			}
		}
		before = after
		h.W.Probe("hist.restart")
	}
}

// restartEqual compares the fields C04 lists.
func restartEqual(a, b *server.VerifSnap) error {
	if a.GCAAvailable != b.GCAAvailable || a.GCAKey != b.GCAKey {
		return fmt.Errorf("GCA key differs after restart")
	}
	if !reflect.DeepEqual(a.Equipment, b.Equipment) {
		return fmt.Errorf("equipment differs after restart: %v vs %v", mapKeysU32(a.Equipment), mapKeysU32(b.Equipment))
	}
	if !reflect.DeepEqual(a.ShortIDs, b.ShortIDs) {
		return fmt.Errorf("public key index differs after restart")
	}
	if !reflect.DeepEqual(a.Bans, b.Bans) {
		return fmt.Errorf("bans differ after restart: %v vs %v", a.Bans, b.Bans)
	}
	if a.Offset != b.Offset {
		return fmt.Errorf("window offset %d became %d", a.Offset, b.Offset)
	}
	if len(a.Reports) != len(b.Reports) {
		return fmt.Errorf("report windows differ after restart")
	}
	for _, id := range mapKeysU32(a.Reports) {
		x := a.Reports[id]
		y := b.Reports[id]
		if len(x) != len(y) {
			return fmt.Errorf("device %d holds %d slots before and %d after restart", id, len(x), len(y))
		}
		for i := range x {
			if x[i].Index != y[i].Index || x[i].Report.PowerOutput != y[i].Report.PowerOutput {
				return fmt.Errorf("device %d slot index %d: value %d became %d (index %d)", id, x[i].Index, x[i].Report.PowerOutput, y[i].Report.PowerOutput, y[i].Index)
			}
			if x[i].Report.PowerOutput != 1 && x[i].Report != y[i].Report {
				return fmt.Errorf("device %d slot index %d: stored record differs after restart", id, x[i].Index)
			}
		}
	}
	if !reflect.DeepEqual(a.HistoryHashes, b.HistoryHashes) {
		return fmt.Errorf("archived weeks differ after restart (%d vs %d weeks)", len(a.HistoryHashes), len(b.HistoryHashes))
	}
	return nil
}

// OpStats queries the statistics endpoint for a seeded week and checks C03.
func (h *Hist) OpStats() {
	c := h.W.C
	n := h.N
	m := n.Model
	falseNeg := c.Chance("false-neg", 1, 3)
	kind := c.Weighted("week", 3, 3, 2, 1, 1)
	switch kind {
	case 0, 1: // live halves
		half := kind
		ads, st := n.GetStats(m.Offset+uint32(half)*2016, falseNeg)
		if st != 200 {
			h.W.Fail(h.Rule+".week", "live", "live week %d not served: status %d", m.Offset+uint32(half)*2016, st)
		}
		if !falseNeg {
			if err := CompareWeek(m.LiveWeek(half), ads, n.Key.Pub); err != nil {
				h.W.Fail(h.Rule+".week", "live", "%v", err)
			}
		}
	case 2: // archived
		if len(m.Weeks) == 0 {
			return
		}
		i := c.Int("archived", len(m.Weeks))
		ads, st := n.GetStats(uint32(i)*2016, falseNeg)
		if st != 200 {
			h.W.Fail(h.Rule+".week", "archived", "archived week %d not served: status %d", i, st)
		}
		h.W.Probe("hist.stats-archived")
		if falseNeg {
			h.W.Probe("hist.stats-archived-falseneg")
			// "...identical forever, whatever requests (with any query
			// parameters) follow": the plain request right after it.
			ads, st = n.GetStats(uint32(i)*2016, false)
			if st != 200 {
				h.W.Fail(h.Rule+".week", "archived", "archived week %d not served after a false-negatives request: status %d", i, st)
			}
		}
		if err := CompareWeek(&m.Weeks[i], ads, n.Key.Pub); err != nil {
			h.W.Fail(h.Rule+".week", "archived", "%v", err)
		}
		SortDevices(ads.Devices)
		if first, ok := h.FirstSeen[i]; ok && !bytes.Equal(first, canonWeek(ads)) {
			h.W.Fail(h.Rule+".immutable", "served", "archived week %d is served differently from the record first archived", i)
		}
	case 3: // future
		if c.Chance("beyond-32-bits", 1, 3) {
			// A week offset that does not fit 32 bits (it is aligned, and
			// its low 32 bits name a week that exists): far in the future.
			// 63 * 2^32 is a multiple of 2016 whose low 32 bits are zero.
			off := uint64(63)<<32*uint64(1+c.Int("wraps", 3)) + uint64(m.Offset)*uint64(c.Int("plus-live", 2))
			res := n.Get(fmt.Sprintf("/api/v1/all-device-stats?timeslot_offset=%d", off))
			if res.Status == 200 {
				h.W.Fail(h.Rule+".refuse", "future-64-bit", "timeslot_offset=%d (beyond 32 bits, far in the future) was served", off)
			}
			h.W.Probe("hist.stats-offset-beyond-32-bits")
			return
		}
		_, st := n.GetStats(m.Offset+4032+uint32(c.Int("weeks", 3))*2016, falseNeg)
		if st == 200 {
			h.W.Fail(h.Rule+".refuse", "future", "a future week was served")
		}
	case 4: // misaligned
		_, st := n.GetStats(m.Offset+1+uint32(c.Int("mis", 2015)), falseNeg)
		if st == 200 {
			h.W.Fail(h.Rule+".refuse", "misaligned", "a misaligned week offset was served")
		}
	}
}

// Check applies pending rotations to the model and compares real and model.
func (h *Hist) Check(site string) {
	h.AfterRotations()
}

// CheckArchiveImmutable compares every archived week in memory with the form
// first seen.
func (h *Hist) CheckArchiveImmutable(site string) {
	n := h.N
	if !n.Up {
		return
	}
	for i := range n.Model.Weeks {
		ads, ok := n.S.VerifHistoryWeek(i)
		if !ok {
			h.W.Fail(h.Rule+".contig", site, "week %d missing from the archive", i)
		}
		if !VerifySig(n.Key.Pub, WeekSigningBytes(ads.Devices, ads.TimeslotOffset), ads.Signature) {
			h.W.Fail(h.Rule+".immutable", site, "archived week %d no longer verifies under the server key: the stored record was changed", i)
		}
		SortDevices(ads.Devices)
		if first, ok := h.FirstSeen[i]; ok && !bytes.Equal(first, canonWeek(&ads)) {
			h.W.Fail(h.Rule+".immutable", site, "archived week %d in memory differs from the record first archived", i)
		}
	}
}
