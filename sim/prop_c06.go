//go:build test

package sim

// C06 - equipment changes need the GCA's signature; a conflict bans exactly
// one id. Authorizations travel through the real JSON endpoint: valid,
// unsigned, signed by temp / server / device / a losing GCA candidate, exact
// duplicates, conflicts differing in each single field (incl. a fresh key and
// another device's key), submissions for banned ids, arbitrary finite float64
// coordinates; interleaved with reports for all devices and restarts.

import (
	"encoding/binary"
	"encoding/json"
	"math"
	"net/http"
	"time"

	"github.com/glowlabs-org/gca-backend/glow"
	"github.com/glowlabs-org/gca-backend/server"
)

func init() {
	Register(&Property{
		ID:             "C06",
		Run:            runC06,
		Rule:           "runs = generated sequences of authorizations (new, duplicate, single-field conflicts incl. key reuse, foreign/invalid signatures, for banned ids, random finite float64 coordinates) interleaved with reports, rotations and restarts; after every step the equipment model, the public surfaces (equipment list, recent reports by key, sync by id, live statistics, authorization file) and the server's own consistency check are compared; non-trivial = at least one conflict ban happened; distinct = distinct decision signatures",
		Real:           []string{"AuthorizeEquipmentHandler (JSON decode), managedAuthorizeEquipment, saveEquipment, loadEquipment (ban replay)", "EquipmentHandler, RecentReportsHandler, sync handler, stats handler", "CheckInvariants", "restart path", "a second real server (half of the runs): forwarded copies, first-hand resubmission there"},
		Stub:           []string{"socket listeners"},
		Assumptions:    []string{"fresh ids always carry fresh keys (the GCA assigning one key to two live ids is outside the listed space)"},
		RequiredProbes: []string{"hist.conflict", "hist.auth-for-banned", "hist.restart", "c06.float-pattern", "c06.ban-with-data", "c06.conflict-key-reuse", "hist.tampered-copy", "c06.real-peer", "c06.peer-resubmit-forwarded"},
		RequiredSites:  []string{"auth.after-write", "auth.preforward"},
	})
}

func runC06(m *Sim) {
	w := NewWorld(m)
	defer w.Shutdown()
	h := NewHist(w, "srv0", "C06")
	h.WideIDs = true
	SetSlot(uint32(500 + m.C.Int("now0", 2500)))
	h.Boot()
	// Before registration nothing is accepted.
	pre := StdAuth(h.GCA, 77, Key("early"), 10)
	h.N.DoAuthorize(pre)
	h.Setup(2 + m.C.Int("devices", 2))
	c06Check(h, "setup", true)
	// Half of the runs: a second real server, the two list each other. What srv0
	// accepts reaches the peer as srv0's forwarded copy; the GCA later submits the
	// identical authorization to the peer first hand, which must change nothing
	// there either.
	var peer *ServerNode
	if m.C.Chance("real-peer", 1, 2) {
		peer = w.AddServer("peer0", "temp-peer0", true)
		peer.Boot()
		peer.DoRegister(h.GCA.Pub, peer.Temp)
		w.HTTPObserve = func(to *ServerNode, req *http.Request, body []byte, status int) {
			switch req.URL.Path {
			case "/api/v1/authorized-servers":
				var as server.AuthorizedServer
				if req.Method == "POST" && json.Unmarshal(body, &as) == nil {
					to.Model.AuthorizeServer(as)
				}
			case "/api/v1/authorize-equipment":
				var a glow.EquipmentAuthorization
				if json.Unmarshal(body, &a) == nil {
					to.Model.Authorize(a)
				}
			}
		}
		for _, target := range []*ServerNode{h.N, peer} {
			for _, subj := range []*ServerNode{h.N, peer} {
				target.DoAuthorizeServer(SignServer(h.GCA, server.AuthorizedServer{PublicKey: subj.Key.Pub, Location: subj.Loc, HttpPort: subj.HTTP, TcpPort: subj.TCP, UdpPort: subj.UDP}))
			}
		}
		m.Probe("c06.real-peer")
	}
	peerCheck := func(site string) {
		if peer == nil || !peer.Up {
			return
		}
		w.Logf("peer check at %s", site)
		// (The peer's window rotations are not followed by its model: only its
		// equipment is compared.)
		eq := peer.GetEquipment()
		if len(eq) != len(peer.Model.Devices) {
			w.Fail("C06.model", "peer-equipment-list", "the peer's equipment list has %d entries, its model %d", len(eq), len(peer.Model.Devices))
		}
		for _, id := range mapKeysU32(peer.Model.Devices) {
			d := peer.Model.Devices[id]
			if got, ok := eq[id]; !ok || !AuthEqual(got, d.Auth) {
				w.Fail("C06.model", "peer-equipment-list", "device %d is missing from the peer's equipment list or listed with another authorization", id)
			}
		}
	}
	nops := 10 + m.C.Int("ops", 50)
	for i := 0; i < nops; i++ {
		bansBefore := len(h.N.Model.Bans)
		peerW := 0
		if peer != nil {
			peerW = 3
		}
		switch m.C.Weighted("op", 6, 6, 2, 1, 1, 1, peerW) {
		case 6: // first-hand submission to the peer of something srv0 may have forwarded
			if len(h.Devs) > 0 {
				d := h.Devs[m.C.Int("peer-dev", len(h.Devs))]
				_, known := peer.Model.Devices[d.ID]
				r := peer.DoAuthorize(d.Auth)
				w.Logf("first-hand submission of id=%d to the peer -> %s", d.ID, r)
				if known && r == AuthDuplicate {
					m.Probe("c06.peer-resubmit-forwarded")
				}
				if m.C.Chance("peer-restart", 1, 4) {
					peer.Stop()
					if err := peer.Start(); err != nil {
						w.Fail("C06.model", "peer-restart", "the peer does not restart: %v", err)
					}
				}
			}
		case 0:
			h.OpReport()
		case 1:
			before := len(h.N.Model.Bans)
			dataBefore := 0
			for _, d := range h.N.Model.Devices {
				dataBefore += len(d.Slots)
			}
			h.OpAuthorize()
			if len(h.N.Model.Bans) > before {
				m.Probe("nontrivial")
				dataAfter := 0
				for _, d := range h.N.Model.Devices {
					dataAfter += len(d.Slots)
				}
				if dataAfter < dataBefore {
					m.Probe("c06.ban-with-data")
				}
			}
		case 2: // random finite float64 bit patterns through the JSON endpoint
			c06FloatAuth(h)
		case 3:
			h.OpClock()
		case 4:
			h.OpTime(time.Duration(20+m.C.Int("ms", 200)) * time.Millisecond)
		case 5:
			h.OpRestart(1)
		}
		c06Check(h, "op", len(h.N.Model.Bans) != bansBefore)
		peerCheck("op")
	}
	if peer != nil {
		peer.Stop()
		if err := peer.Start(); err != nil {
			w.Fail("C06.model", "peer-restart", "the peer does not restart: %v", err)
		}
		peerCheck("final")
	}
	h.OpRestart(1 + m.C.Int("restarts", 2))
	c06Check(h, "final", true)
	h.CheckArchiveImmutable("final")
}

func c06FloatAuth(h *Hist) {
	c := h.W.C
	if len(h.Devs) >= 6 {
		return
	}
	pat := func() float64 {
		switch c.Int("float-kind", 7) {
		case 0:
			return math.Copysign(0, -1)
		case 1:
			return math.SmallestNonzeroFloat64
		case 2:
			return -math.MaxFloat64
		case 3:
			return math.Float64frombits(0x000fffffffffffff) // largest subnormal
		case 4:
			return 1e-320
		default:
			for {
				f := math.Float64frombits(c.U64("float-bits"))
				if !math.IsNaN(f) && !math.IsInf(f, 0) {
					return f
				}
			}
		}
	}
	i := len(h.Devs)
	d := &Device{Role: "devF", ID: h.NextID, Key: Key("devF" + string(rune('a'+i)))}
	h.NextID++
	lat, long := pat(), pat()
	if math.IsInf(lat+long+1000, 0) {
		// The repo's test-mode WattTime stub derives the impact rate from
		// latitude+longitude; keep that sum finite (an infinite rate cannot
		// be served as JSON, which is not what this property is about).
		long = -long
	}
	a := glow.EquipmentAuthorization{ShortID: d.ID, PublicKey: d.Key.Pub, Latitude: lat, Longitude: long, Capacity: 1000, Debt: c.U64("debt"), Expiration: uint32(c.Int("exp", 1<<31)), Initialization: uint32(c.Int("init", 1<<31)), ProtocolFee: c.U64("fee")}
	d.Auth = SignAuth(h.GCA, a)
	h.N.DoAuthorize(d.Auth)
	h.Devs = append(h.Devs, d)
	h.W.Probe("c06.float-pattern")
}

// c06Check compares every surface C06 names with the model.
func c06Check(h *Hist, site string, full bool) {
	n := h.N
	w := h.W
	h.AfterRotations()
	if f := n.S.VerifCheckInvariants(); f != nil {
		w.Fail("C06.invariants", site, "the server's own consistency check panics: %v", f)
	}
	// Equipment list, bit exact.
	eq := n.GetEquipment()
	if len(eq) != len(n.Model.Devices) {
		w.Fail("C06.model", "equipment-list", "equipment list has %d entries, model %d", len(eq), len(n.Model.Devices))
	}
	for _, id := range mapKeysU32(n.Model.Devices) {
		d := n.Model.Devices[id]
		got, ok := eq[id]
		if !ok {
			w.Fail("C06.model", "equipment-list", "authorized device %d missing from the equipment list", id)
		}
		if !AuthEqual(got, d.Auth) {
			rule := "C06.model"
			if math.Float64bits(got.Latitude) != math.Float64bits(d.Auth.Latitude) || math.Float64bits(got.Longitude) != math.Float64bits(d.Auth.Longitude) {
				rule = "C06.float"
			}
			w.Fail(rule, "equipment-list", "device %d is listed with an authorization that differs from the accepted one", id)
		}
	}
	// The authorization file: every record verifies under the GCA key.
	raw := n.ReadFile("equipment-authorizations.dat")
	if len(raw)%148 != 0 {
		w.Fail("C06.model", "auth-file", "equipment-authorizations.dat has %d bytes", len(raw))
	}
	// Banned ids: gone everywhere, refused.
	for _, id := range mapKeysU32(n.Model.Bans) {
		var req [4]byte
		binary.LittleEndian.PutUint32(req[:], id)
		reply, pv, st := n.SyncSession(req[:])
		if pv != nil {
			w.Fail("C06.panic", "sync", "sync handler panicked: %v\n%s", pv, firstRepoFrames(st))
		}
		if len(reply) != 1 || reply[0] != 0 {
			w.Fail("C06.model", "sync-banned", "sync for banned id %d answered with %d bytes instead of the refusal", id, len(reply))
		}
	}
	pick := -1
	if !full && len(h.Devs) > 0 {
		pick = w.C.Int("recent-of", len(h.Devs))
	}
	for i, d := range h.Devs {
		if pick >= 0 && i != pick {
			continue
		}
		_, live := n.Model.Devices[d.ID]
		st := n.GetRecentStatus(d.Auth.PublicKey)
		if live && st != 200 {
			w.Fail("C06.others", "recent-reports", "recent reports by key of authorized device %d refused (%d): its public-key lookup is gone", d.ID, st)
		}
		if !live && st == 200 {
			// The key may legitimately belong to another live device
			// (a conflict reused it): only then is an answer acceptable.
			owned := false
			for _, o := range n.Model.Devices {
				if o.Auth.PublicKey == d.Auth.PublicKey {
					owned = true
				}
			}
			if !owned {
				w.Fail("C06.model", "recent-reports", "recent reports still served for banned device %d", d.ID)
			}
		}
	}
	if w.C.Chance("surfaces", 1, 4) {
		c02Surfaces(w, n, h.live())
	}
}
