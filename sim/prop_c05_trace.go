//go:build test

package sim

// C05, system-call-boundary mode ("S" flavour): the worker runs under strace
// (see cmd/check and tracefs.go). A run is one generated history like runC05's,
// without forks at observation points; every operation is bracketed by marker
// mkdirs. Afterwards the worker reads its own trace: every completed
// file-mutating system call below the server's directory, in order and with its
// data. The disk after each prefix of that list is what a process kill at that
// instant leaves behind; each such cut is rebuilt and recovered like a fork of
// runC05. A cut inside an operation may show the state before or after that
// operation, a cut between operations exactly the state after the last one.
// Nothing here depends on hooks in the repository: code without observation
// points (and code added by a change) is cut at the same granularity.

import (
	"fmt"
	"io"
	"os"
	"path/filepath"
	"strings"
	"syscall"
	"time"
)

// straceLog is the worker's own descriptor of the strace log.
var straceLog *os.File

type c05TraceOp struct {
	name          string
	slot          uint32
	before, after *ServerModel
}

func cloneModel(m *ServerModel) *ServerModel {
	if m == nil {
		return nil
	}
	return m.Clone()
}

func runC05Trace(m *Sim) {
	tracePath := os.Getenv("VERIF_STRACE_FILE")
	// The log has no name from the first run on (strace writes through the
	// descriptor it holds, the worker reads through its own): nothing is left
	// behind however the two processes end.
	if straceLog == nil {
		f, err := os.OpenFile(tracePath, os.O_RDWR, 0)
		must(err)
		straceLog = f
		os.Remove(tracePath)
	}
	// Drop what earlier runs of this process left in the log: strace keeps its
	// own file offset, so the file becomes sparse and only this run has data.
	must(straceLog.Truncate(0))

	w := NewWorld(m)
	defer w.Shutdown()
	h := NewHist(w, "srv0", "C05")
	SetSlot(uint32(m.C.Int("now0", 3000)))
	markDir := filepath.Join(w.Dir, "MARK")
	must(os.MkdirAll(markDir, 0755))
	var ops []*c05TraceOp
	do := func(name string, f func()) {
		rec := &c05TraceOp{name: name, before: cloneModel(h.N.Model)}
		must(os.Mkdir(filepath.Join(markDir, fmt.Sprintf("%03d-begin-%s", len(ops), name)), 0755))
		f()
		rec.slot = Slot()
		rec.after = cloneModel(h.N.Model)
		must(os.Mkdir(filepath.Join(markDir, fmt.Sprintf("%03d-end-%s", len(ops), name)), 0755))
		ops = append(ops, rec)
	}

	selfKey := m.C.Chance("self-key", 1, 2)
	if selfKey {
		os.Remove(filepath.Join(h.N.Dir, "server.keys"))
		h.N.Key = nil
	}
	h.N.Model = NewServerModel(h.N.Temp.Pub)
	do("first-start", func() {
		if err := h.N.Start(); err != nil {
			m.Fail("C05.start", "first-start", "server does not start on a fresh directory: %v", err)
		}
	})
	if selfKey {
		pk := h.N.S.PublicKey()
		h.N.Key = &KeyPair{Role: "key-self", Pub: pk}
	}
	if m.C.Chance("register", 5, 6) {
		do("register", func() { h.N.DoRegister(h.GCA.Pub, h.N.Temp) })
		nd := 1 + m.C.Int("devices", 3)
		for i := 0; i < nd; i++ {
			do("authorize", func() { h.NewDevice([]uint64{1000, 0, 1 << 40}[m.C.Int("cap", 3)]) })
		}
	}
	nops := 3 + m.C.Int("ops", 14)
	for i := 0; i < nops; i++ {
		switch m.C.Weighted("op", 8, 3, 2, 2) {
		case 0:
			do("report", h.OpReport)
		case 1:
			if h.N.Model.Registered {
				do("authorization", func() { h.OpAuthorize() })
			}
		case 2:
			do("clock", h.OpClock)
		case 3:
			do("time", func() { h.OpTime(time.Duration(20+m.C.Int("ms", 200)) * time.Millisecond) })
		}
		h.Check("op")
	}
	if m.C.Chance("restart-catchup", 1, 3) {
		do("restart-catchup", func() {
			SetSlot(Slot() + uint32(4000+m.C.Int("jump", 5000)))
			h.OpRestart(1)
		})
	}
	mainKey := h.N.Key
	mainSlot := Slot()
	do("close", h.N.Stop)

	// ---- the trace of this run ---------------------------------------------------
	var dataOff int64
	if off, err := syscall.Seek(int(straceLog.Fd()), 0, 3 /* SEEK_DATA */); err == nil && off > 0 {
		dataOff = off
	}
	fsops, perr := ParseStrace(io.NewSectionReader(straceLog, dataOff, 1<<62), h.N.Dir, markDir)
	if perr != nil {
		panic("harness: " + perr.Error())
	}
	beginSeen := false
	for _, o := range fsops {
		if o.Kind == "marker" && strings.Contains(o.Path, "begin-first-start") {
			beginSeen = true
		}
	}
	if !beginSeen {
		panic(fmt.Sprintf("harness: the strace log %s holds no marker of this run (%d operations parsed)", tracePath, len(fsops)))
	}

	// ---- the cuts ---------------------------------------------------------------------
	type cut struct {
		idx    int // state after fsops[0..idx]
		op     int // operation the cut falls into (or follows)
		inside bool
		site   string
	}
	var cuts []cut
	fs := NewMemFS()
	cur, inside := -1, false
	for i, o := range fsops {
		if o.Kind == "marker" {
			var k int
			fmt.Sscanf(o.Path, "%03d-", &k)
			cur = k
			inside = strings.Contains(o.Path, "-begin-")
			if !inside && cur >= 0 {
				// Boundary: everything of operation k is on disk.
				cuts = append(cuts, cut{idx: i, op: k, inside: false, site: ops[k].name + "/done"})
			}
			continue
		}
		_, existed := fs.Files[o.Path]
		fs.Apply(o)
		if cur < 0 || strings.HasPrefix(o.Path, "server.log") || !inside {
			continue
		}
		if o.Kind == "create" && existed {
			continue // no change on disk
		}
		cuts = append(cuts, cut{idx: i, op: cur, inside: true, site: ops[cur].name + "/" + o.Kind + ":" + filepath.Base(o.Path)})
	}
	m.Probe("c05.trace.run")
	for range fsops {
		m.Probe("c05.trace.syscalls")
	}

	// ---- recover every cut (quick tier: a seeded sample, always the cuts inside
	// the first start) ------------------------------------------------------------------
	w.Phase = "recovery"
	fs = NewMemFS()
	applied := -1
	insideCount := 0
	for ci, c := range cuts {
		if m.Tier != "thorough" && ops[c.op].name != "first-start" && !m.C.Chance("cut-here", 1, 3) {
			continue
		}
		for applied < c.idx {
			applied++
			if fsops[applied].Kind != "marker" {
				fs.Apply(fsops[applied])
				w.Logf("syscall %d: %s", applied, fsops[applied])
			} else {
				w.Logf("marker: %s", fsops[applied].Path)
			}
		}
		dir := filepath.Join(w.Dir, fmt.Sprintf("cut-%04d", ci))
		must(fs.Materialise(dir, func(p string) bool { return strings.HasPrefix(p, "server.log") }))
		o := ops[c.op]
		fk := &c05Fork{dir: dir, site: c.site, slot: o.slot}
		if c.inside {
			fk.model, fk.alt = cloneModel(o.before), cloneModel(o.after)
			insideCount++
			m.Probe("c05.trace.cut-inside")
		} else {
			fk.model = cloneModel(o.after)
			m.Probe("c05.trace.cut-boundary")
		}
		key := mainKey
		if c.op == 0 {
			fk.firstKey = true
			m.Probe("c05.trace.cut-first-start")
		}
		if o.name == "close" || o.name == "restart-catchup" {
			// Close / restart change nothing durable by themselves; the clock of
			// the recovery is the clock they ran at.
		}
		SetSlot(o.slot)
		w.Logf("crash after system call %d (%s), clock %d", c.idx, c.site, o.slot)
		m.Sig = append(m.Sig, "cut:"+c.site)
		c05Recover(w, h, fk, ci, key)
	}
	SetSlot(mainSlot)
	if insideCount > 0 {
		m.Probe("nontrivial")
	}
}
