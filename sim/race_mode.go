//go:build test

package sim

// race_mode.go: the auxiliary free-running mode for the data-race clause of
// C13 (DESIGN.md 3.10). Deterministic serialisation creates a happens-before
// edge between any two steps, so the race detector can never fire inside the
// deterministic engine. Here the same world runs with every yield site off:
// 8-48 goroutines issue generated operations concurrently inside a bubble
// (real parallelism among goroutines woken at the same simulated instant, the
// background loops ticking), in a binary built with -race. This mode is NOT
// deterministic simulation - a report cannot be replayed exactly - but it is
// sound: the race detector and the runtime's concurrent-map check have no
// false positives.

import (
	"archive/zip"
	"bytes"
	"encoding/binary"
	"encoding/hex"
	"encoding/json"
	"fmt"
	"io"
	"math/rand/v2"
	"net/http/httptest"
	"os"
	"path/filepath"
	"runtime"
	"strings"
	"sync"
	"sync/atomic"
	"testing"
	"testing/synctest"
	"time"

	"github.com/glowlabs-org/gca-backend/glow"
	"github.com/glowlabs-org/gca-backend/server"
)

// RaceMain runs VERIF_RACE_RUNS free-running workloads.
func RaceMain(t *testing.T) {
	seed := envInt("VERIF_SEED", 1)
	runs := int(envInt("VERIF_RACE_RUNS", 5))
	from := int(envInt("VERIF_RUN_FROM", 0))
	scratch := os.Getenv("VERIF_SCRATCH")
	if scratch == "" {
		scratch = "/dev/shm"
	}
	scratch = filepath.Join(scratch, fmt.Sprintf("verif-race-%d-%d", os.Getpid(), time.Now().UnixNano()))
	os.MkdirAll(scratch, 0755)
	defer os.RemoveAll(scratch)
	installHooks()
	flavourInit()
	// Real-time watchdog: in this mode goroutines run freely, so a lock-order
	// inversion or a leaked lock shows as goroutines blocked on a mutex forever.
	var raceProgress atomic.Int64
	go func() {
		last, since := int64(-1), time.Now()
		for {
			time.Sleep(time.Second)
			if p := raceProgress.Load(); p != last {
				last, since = p, time.Now()
				continue
			}
			if time.Since(since) < time.Duration(envInt("VERIF_RACE_WATCHDOG_S", 40))*time.Second {
				continue
			}
			buf := make([]byte, 8<<20)
			n := runtime.Stack(buf, true)
			site := ""
			blocked := 0
			for _, g := range strings.Split(string(buf[:n]), "\n\n") {
				if (strings.Contains(g, "sync.(*Mutex).Lock") || strings.Contains(g, "sync.(*RWMutex)")) && strings.Contains(g, "gca-backend/") {
					blocked++
					if site == "" {
						site = TopRepoFunc(g)
					}
				}
			}
			if blocked > 0 {
				fmt.Printf("RACE-MODE-VIOLATION %s.deadlock@%s %d goroutines of the server have been blocked in sync.Mutex.Lock for 40 s of real time in the free-running mode (lock-order inversion or a lock that is never released)\n", raceProp(), site, blocked)
				os.Exit(3)
			}
			fmt.Printf("RACE-MODE-HANG no progress and no goroutine blocked on a mutex in repo code\n")
			os.Exit(4)
		}
	}()
	for run := from; run < from+runs; run++ {
		raceProgress.Add(1)
		dir := filepath.Join(scratch, fmt.Sprintf("run-%d", run))
		os.MkdirAll(dir, 0755)
		a, b := seedFor(seed, run, "C13.race")
		rng := rand.New(rand.NewPCG(a, b))
		synctest.Test(t, func(t *testing.T) {
			if os.Getenv("VERIF_RACE_FOCUS") == "C07" {
				raceRunC07(t, rng, dir)
			} else if os.Getenv("VERIF_RACE_FOCUS") == "C19" {
				raceRunC19(rng)
			} else {
				raceRun(t, rng, dir)
			}
		})
		os.RemoveAll(dir)
		fmt.Printf("RACE-RUN-DONE %d\n", run)
	}
}

func raceRun(t *testing.T, rng *rand.Rand, dir string) {
	m := &Sim{C: NewReplayChooser(nil, nil), S: newSched0(), Prop: "C13", Dir: dir, Start: time.Now(), Faults: map[string]int{}, Probes: map[string]int{}}
	// newSched0 has no site predicate: every yield passes straight through.
	w := NewWorld(m)
	n := w.AddServer("srv0", "temp-srv0", true)
	glow.SetCurrentTimeslot(uint32(500 + rng.IntN(2500)))
	s, err := server.NewGCAServer(n.Dir)
	if err != nil {
		panic(fmt.Sprintf("harness: race mode server does not start: %v", err))
	}
	n.S, n.Up = s, true
	s.VerifSetPorts(n.HTTP, n.TCP, n.UDP)
	gca := Key("gcaA")
	registered := rng.IntN(3) == 0
	post := func(path string, v interface{}) int {
		b, _ := json.Marshal(v)
		req := httptest.NewRequest("POST", path, bytes.NewReader(b))
		rec := httptest.NewRecorder()
		s.VerifHandler().ServeHTTP(rec, req)
		return rec.Code
	}
	get := func(path string) int {
		req := httptest.NewRequest("GET", path, nil)
		rec := httptest.NewRecorder()
		s.VerifHandler().ServeHTTP(rec, req)
		return rec.Code
	}
	reg := server.GCARegistration{GCAKey: gca.Pub}
	reg.Signature = glow.Sign(RegistrationSigningBytes(gca.Pub), n.Temp.Priv)
	if registered {
		post("/api/v1/register-gca", reg)
	}
	ndev := 2 + rng.IntN(3)
	var devs []*Device
	for i := 0; i < ndev; i++ {
		d := &Device{ID: uint32(10 + i), Key: Key(fmt.Sprintf("dev%d", i))}
		d.Auth = StdAuth(gca, d.ID, d.Key, 1000)
		devs = append(devs, d)
		if registered {
			post("/api/v1/authorize-equipment", d.Auth)
		}
	}
	// Strong runs keep the outcome order-independent (registered before the
	// workers start, no bans, no clock steps): then the final per-slot values
	// are a function of the set of reports sent (the rule of C02) and every
	// registration attempt must be refused, whatever the real schedule was.
	strong := registered && rng.IntN(2) == 0
	var sentMu sync.Mutex
	sent := map[[2]uint32]map[Report]bool{}
	regOK := 0
	srvPosted := map[glow.PublicKey]bool{} // server key -> some post for it was a ban
	workers := 8 + rng.IntN(40)
	var wg sync.WaitGroup
	start := make(chan struct{})
	for g := 0; g < workers; g++ {
		g := g
		gr := rand.New(rand.NewPCG(rng.Uint64(), uint64(g)))
		wg.Add(1)
		go func() {
			defer wg.Done()
			<-start
			for k := 0; k < 6; k++ {
				// Wake up together with other workers and the loops.
				time.Sleep(time.Duration(gr.IntN(3)) * 20 * time.Millisecond)
				d := devs[gr.IntN(len(devs))]
				switch gr.IntN(12) {
				case 0:
					if post("/api/v1/register-gca", reg) == 200 {
						sentMu.Lock()
						regOK++
						sentMu.Unlock()
					}
				case 1:
					post("/api/v1/authorize-equipment", d.Auth)
				case 2:
					if strong {
						continue
					}
					a := d.Auth
					a.Debt += uint64(1 + gr.IntN(2))
					post("/api/v1/authorize-equipment", SignAuth(gca, a))
				case 3, 4:
					now := glow.CurrentTimeslot()
					r := SignedReport(d.Key, d.ID, now-uint32(gr.IntN(8)), uint64(500+gr.IntN(3)))
					sentMu.Lock()
					k := [2]uint32{r.ID, r.Slot}
					if sent[k] == nil {
						sent[k] = map[Report]bool{}
					}
					sent[k][r] = true
					sentMu.Unlock()
					s.VerifHandleDatagram(r.Encode())
				case 5:
					as := server.AuthorizedServer{PublicKey: Key(fmt.Sprintf("peer%d", gr.IntN(12))).Pub, Banned: gr.IntN(4) == 0, Location: n.Loc, HttpPort: n.HTTP}
					sentMu.Lock()
					srvPosted[as.PublicKey] = srvPosted[as.PublicKey] || as.Banned
					sentMu.Unlock()
					post("/api/v1/authorized-servers", SignServer(gca, as))
				case 6:
					post("/api/v1/equipment-migrate", SignMigration(gca, server.EquipmentMigration{Equipment: d.Key.Pub, NewGCA: Key("gcaNew").Pub, NewShortID: 7}))
				case 7:
					get(fmt.Sprintf("/api/v1/all-device-stats?timeslot_offset=%d&insert_false_negatives=true", 2016*gr.IntN(2)))
				case 8:
					get("/api/v1/equipment")
					get("/api/v1/authorized-servers")
				case 9:
					cli, srv := SimPipe()
					go s.VerifHandleSyncConn(srv)
					var req [4]byte
					binary.LittleEndian.PutUint32(req[:], d.ID)
					cli.Write(req[:])
					buf := make([]byte, 4096)
					for {
						if _, err := cli.Read(buf); err != nil {
							break
						}
					}
					cli.Close()
				case 10:
					req := httptest.NewRequest("GET", "/api/v1/archive", nil)
					rec := httptest.NewRecorder()
					s.VerifHandler().ServeHTTP(rec, req)
					if rec.Code == 200 {
						if why := archiveAligned(rec.Body.Bytes()); why != "" {
							fmt.Printf("RACE-MODE-VIOLATION C14.prefix@concurrent-writers an archive taken while reports and authorizations were being written is not record-aligned: %s\n", why)
						}
					}
				case 11:
					if gr.IntN(4) == 0 && !strong {
						glow.SetCurrentTimeslot(glow.CurrentTimeslot() + uint32(1+gr.IntN(3300)))
					}
					get("/api/v1/recent-reports?publicKey=" + hex.EncodeToString(d.Key.Pub[:]))
				}
			}
		}()
	}
	close(start)
	wg.Wait()
	if f := s.VerifCheckInvariants(); f != nil {
		fmt.Printf("RACE-MODE-VIOLATION C13.linear@invariants the server's own consistency check fails after a concurrent workload: %v\n", f)
	}
	if (registered && regOK > 0) || regOK > 1 {
		fmt.Printf("RACE-MODE-VIOLATION C13.linear@registration %d registrations succeeded in one concurrent workload (already registered before: %v)\n", regOK, registered)
	}
	if registered {
		// The server list is order independent: every posted key is listed
		// once, banned iff one of the posts for it was a ban (all posts of a
		// workload carry the same address).
		listed := map[glow.PublicKey][]bool{}
		for _, e := range s.VerifSnapshot(true).Servers {
			listed[e.PublicKey] = append(listed[e.PublicKey], e.Banned)
		}
		for k, ban := range srvPosted {
			if l := listed[k]; len(l) != 1 || l[0] != ban {
				fmt.Printf("RACE-MODE-VIOLATION C13.linear@server-list after a concurrent workload server %s is listed %v (one flag per entry), the GCA's posts for it give exactly one entry with banned=%v in every sequential order\n", RoleOf(k), l, ban)
				break
			}
		}
	}
	if strong {
		snap := s.VerifSnapshot(true)
		got := map[[2]uint32]uint64{}
		for id, slots := range snap.Reports {
			for _, sl := range slots {
				got[[2]uint32{id, snap.Offset + sl.Index}] = sl.Report.PowerOutput
			}
		}
		for k, set := range sent {
			want := uint64(1) // two or more distinct valid reports: banned
			if len(set) == 1 {
				for r := range set {
					want = r.Power
				}
			}
			if got[k] != want {
				fmt.Printf("RACE-MODE-VIOLATION C13.linear@slot-value device %d timeslot %d holds %d after a concurrent workload that delivered %d distinct valid reports for it; every sequential order gives %d\n", k[0], k[1], got[k], len(set), want)
				break
			}
		}
		if len(got) != len(sent) {
			fmt.Printf("RACE-MODE-VIOLATION C13.linear@slot-count the server holds %d slot records after a concurrent workload that reported %d distinct (device, timeslot) pairs\n", len(got), len(sent))
		}
	}
	s.Close()
	cur = nil
	time.Sleep(4 * time.Second)
}

func raceProp() string {
	if f := os.Getenv("VERIF_RACE_FOCUS"); f != "" {
		return f
	}
	return "C13"
}

// raceRunC07 is the free-running part of C07: 4-24 registration requests,
// valid for distinct candidate keys, hit a fresh server at the same simulated
// instant on real parallel goroutines. Exactly one may succeed, and the key in
// memory, the key on disk and the key after a restart must be the winner's.
// A count of two successes is a violation whatever the schedule was; the mode
// samples real schedules and is not exactly replayable.
func raceRunC07(t *testing.T, rng *rand.Rand, dir string) {
	m := &Sim{C: NewReplayChooser(nil, nil), S: newSched0(), Prop: "C07", Dir: dir, Start: time.Now(), Faults: map[string]int{}, Probes: map[string]int{}}
	w := NewWorld(m)
	n := w.AddServer("srv0", "temp-srv0", true)
	glow.SetCurrentTimeslot(uint32(500 + rng.IntN(2500)))
	s, err := server.NewGCAServer(n.Dir)
	if err != nil {
		panic(fmt.Sprintf("harness: race mode server does not start: %v", err))
	}
	s.VerifSetPorts(n.HTTP, n.TCP, n.UDP)
	k := 4 + rng.IntN(21)
	type outcome struct {
		key  glow.PublicKey
		code int
	}
	results := make([]outcome, k)
	var wg sync.WaitGroup
	start := make(chan struct{})
	for g := 0; g < k; g++ {
		g := g
		cand := Key(fmt.Sprintf("cand%d", g))
		reg := server.GCARegistration{GCAKey: cand.Pub}
		reg.Signature = glow.Sign(RegistrationSigningBytes(cand.Pub), n.Temp.Priv)
		body, _ := json.Marshal(reg)
		wg.Add(1)
		go func() {
			defer wg.Done()
			<-start
			req := httptest.NewRequest("POST", "/api/v1/register-gca", bytes.NewReader(body))
			rec := httptest.NewRecorder()
			s.VerifHandler().ServeHTTP(rec, req)
			results[g] = outcome{cand.Pub, rec.Code}
		}()
	}
	close(start)
	wg.Wait()
	wins := 0
	var winner glow.PublicKey
	for _, r := range results {
		if r.code == 200 {
			wins++
			winner = r.key
		}
	}
	snap := s.VerifSnapshot(true)
	file, _ := os.ReadFile(filepath.Join(n.Dir, "gcaPubKey.dat"))
	switch {
	case wins != 1:
		fmt.Printf("RACE-MODE-VIOLATION C07.once@concurrent-batch %d of %d concurrent valid registrations for distinct keys were answered with 200\n", wins, k)
	case snap.GCAKey != winner || !bytes.Equal(file, winner[:]):
		fmt.Printf("RACE-MODE-VIOLATION C07.immutable@concurrent-batch the registration answered with 200 is not the key the server holds (memory match=%v, file match=%v)\n", snap.GCAKey == winner, bytes.Equal(file, winner[:]))
	}
	s.Close()
	if wins == 1 {
		s2, err := server.NewGCAServer(n.Dir)
		if err != nil {
			fmt.Printf("RACE-MODE-VIOLATION C07.start@concurrent-batch server does not restart after a concurrent registration batch: %v\n", err)
		} else {
			if k2 := s2.VerifSnapshot(true).GCAKey; k2 != winner {
				fmt.Printf("RACE-MODE-VIOLATION C07.immutable@restart after a restart the server holds a different GCA key than the one it confirmed\n")
			}
			s2.Close()
		}
	}
	cur = nil
	time.Sleep(4 * time.Second)
}

// archiveAligned checks that the append-only files of an archive hold whole
// records (80 / 148 bytes, parsable weekly records).
func archiveAligned(body []byte) string {
	zr, err := zip.NewReader(bytes.NewReader(body), int64(len(body)))
	if err != nil {
		return "not a zip file"
	}
	for _, f := range zr.File {
		rc, err := f.Open()
		if err != nil {
			return "cannot open " + f.Name
		}
		b, _ := io.ReadAll(rc)
		rc.Close()
		switch f.Name {
		case "equipment-reports.dat":
			if len(b)%80 != 0 {
				return fmt.Sprintf("equipment-reports.dat has %d bytes", len(b))
			}
		case "equipment-authorizations.dat":
			if len(b)%148 != 0 {
				return fmt.Sprintf("equipment-authorizations.dat has %d bytes", len(b))
			}
		case "allDeviceStats.dat":
			if _, err := ParseStatsFile(b); err != nil {
				return "allDeviceStats.dat: " + err.Error()
			}
		}
	}
	return ""
}

// raceRunC19 is the free-running part of C19: callers that really overlap
// inside Allow. A fresh limiter with a window that never ends (one hour of
// bubble time) is hit by 1-128 goroutines released together, each making one
// to three calls. Whatever the schedule, exactly min(calls, limit) calls must
// be admitted: more is over-admission, fewer is a wrongful refusal (fewer than
// the limit were admitted before it). Order independent, hence certain.
func raceRunC19(rng *rand.Rand) {
	for round := 0; round < 300; round++ {
		limit := 1 + rng.IntN(64)
		lim := glow.NewRateLimiter(limit, time.Hour)
		callers := 1 + rng.IntN(2*limit)
		per := 1 + rng.IntN(3)
		var admitted atomic.Int64
		var wg sync.WaitGroup
		start := make(chan struct{})
		for c := 0; c < callers; c++ {
			wg.Add(1)
			go func() {
				defer wg.Done()
				<-start
				for k := 0; k < per; k++ {
					if lim.Allow() {
						admitted.Add(1)
					}
				}
			}()
		}
		close(start)
		wg.Wait()
		want := int64(min(callers*per, limit))
		if got := admitted.Load(); got > want {
			fmt.Printf("RACE-MODE-VIOLATION C19.over@parallel %d of %d overlapping calls were admitted by a fresh limiter with limit %d per hour\n", got, callers*per, limit)
			return
		} else if got < want {
			fmt.Printf("RACE-MODE-VIOLATION C19.starve@parallel only %d of %d overlapping calls were admitted by a fresh limiter with limit %d per hour: %d calls were refused although fewer than the limit had been admitted\n", got, callers*per, limit, want-got)
			return
		}
	}
}
