//go:build test

package sim

// C08 - lost datagrams are eventually recovered; retransmissions are
// identical. The full world: one real client (its own send loop and sync
// rounds), a meter appending rows as the protocol clock advances, 1-3 real
// servers of one GCA, optional week rotation and server restart mid-run.
// Faults: every original and retransmitted datagram independently dropped,
// duplicated, delayed, reordered; sync sessions refused, reset, cut short or
// corrupted; servers down. Then faults stop.

import (
	"fmt"
	"net"
	"os"
	"path/filepath"
	"strings"
	"time"

	"github.com/glowlabs-org/gca-backend/client"
	"github.com/glowlabs-org/gca-backend/server"
)

func init() {
	Register(&Property{
		ID:             "C08",
		Run:            runC08,
		Rule:           "runs = a real client and 1-3 real servers; 30-150 client ticks with the meter appending readings (positive, negative, sentinel, unparseable; all within 32 signed bits) and sometimes rewriting a row it had left unreadable while the fabric drops / duplicates / delays / reorders every datagram independently and sync sessions are refused / reset / cut short / corrupted, with optional rotation, multi-day outages (clock jumps of 300-1000 slots) and server restart; then faults stop, a sync round runs, and every slot of the contacted server's window that is still acceptable and for which the device has a reading must hold a record (the documented +-432 range, and for older unrecovered slots the contacted server's own range, learned by offering it the original datagram); at all times all acted-on datagrams of one slot are byte-identical and no slot of the device is banned; non-trivial = at least one datagram was lost and later recovered by a retransmission; distinct = distinct decision signatures",
		Real:           []string{"client send loop, sync rounds, reply parser, history store, energy file reader", "server report handler, sync handler, rotation loop, restart"},
		Stub:           []string{"kernel sockets (UDP queue / simulated TCP connections with a fault layer)", "the meter firmware (harness writes energy_data.csv)"},
		Assumptions:    []string{"readings fit 32 signed bits (the property's own restriction)", "the coverage claim is about the server contacted by the final sync round"},
		RequiredProbes: []string{"c08.recovered-by-retransmission", "c08.corrected-row", "c08.negative-reading", "c08.sentinel-reading", "c08.sync-failed-before", "c08.rotation", "c08.server-restart", "c08.dup-retransmission", "c08.long-outage", "c08.old-slot-probed", "c08.reading-at-origin", "c08.overlapping-rounds-two-servers"},
		RequiredSites:  []string{"send.wake", "send.tick", "csync.start", "csync.wake", "csync.resend", "report.after-write"},
	})
}

// c08Readings are meter values (mWh as the firmware writes them).
var c08Readings = []string{"5100", "77000.5", "-300", "-51000.25", "10", "-3", "error", "2147483", "-2147483", "24", "-24.5", "1e3"}

type c08Capture struct {
	first map[uint32][]byte // slot -> first acted-on datagram
	count map[uint32]int
}

func c08Install(w *World, cap *c08Capture, rule string) {
	w.UDPCapture = func(d *Datagram) {
		r, ok := DecodeReport(d.Data)
		if !ok || r.Power == 0 || r.Power == 1 {
			return
		}
		cap.count[r.Slot]++
		w.Logf("emit slot=%d power=%d to=%s", r.Slot, r.Power, d.To)
		if f, seen := cap.first[r.Slot]; seen {
			if string(f) != string(d.Data) {
				r0, _ := DecodeReport(f)
				w.FailLater(rule+".identity", "datagram", "two different datagrams were emitted for timeslot %d: power %d then %d (same signature: %v)", r.Slot, r0.Power, r.Power, r0.Sig == r.Sig)
			}
			return
		}
		cap.first[r.Slot] = append([]byte{}, d.Data...)
	}
}

func runC08(m *Sim) {
	w := NewWorld(m)
	defer w.Shutdown()
	w.SeedRandom()
	gca := Key("gcaA")
	start := uint32(600 + m.C.Int("start", 1500))
	SetSlot(start)
	dev := &Device{Role: "dev0", ID: 10, Key: Key("dev0")}
	dev.Auth = StdAuth(gca, dev.ID, dev.Key, 1<<40)
	ns := 1 + m.C.Int("servers", 3)
	var servers []*ServerNode
	for i := 0; i < ns; i++ {
		n := w.AddServer(fmt.Sprintf("srv%d", i), "temp", true)
		n.Boot()
		n.DoRegister(gca.Pub, n.Temp)
		n.DoAuthorize(dev.Auth)
		servers = append(servers, n)
	}
	for _, n := range servers {
		for _, o := range servers {
			n.PostJSON("/api/v1/authorized-servers", SignServer(gca, server.AuthorizedServer{PublicKey: o.Key.Pub, Location: o.Loc, HttpPort: o.HTTP, TcpPort: o.TCP, UdpPort: o.UDP}))
		}
	}
	cl := w.AddClient("cli0", dev, gca.Pub, servers, start)
	cap := &c08Capture{first: map[uint32][]byte{}, count: map[uint32]int{}}
	c08Install(w, cap, "C08")
	if k := m.C.Weighted("calibration", 4, 1, 1, 1); k > 0 {
		// The installer's calibration file (multiplier, divider).
		cal := []string{"", "1\n100\n", "-1\n1\n", "3\n7\n"}[k]
		must(os.WriteFile(filepath.Join(cl.Dir, client.CTSettingsFile), []byte(cal), 0644))
		m.Probe("c08.calibration-file")
	}
	if err := cl.Start(); err != nil {
		m.Fail("C08.start", "client", "client does not start: %v", err)
	}

	// ---- fault phase -----------------------------------------------------------
	dropW, dupW, delayW := m.C.Int("w-drop", 5), m.C.Int("w-dup", 3), m.C.Int("w-delay", 3)
	lost := map[uint32]bool{}
	w.UDPPolicy = func(d *Datagram) UDPAction {
		a := UDPAction(m.C.Weighted("udp", 4, dropW, dupW, delayW))
		if r, ok := DecodeReport(d.Data); ok {
			w.Logf("udp slot=%d action=%d now=%d", r.Slot, a, Slot())
		}
		if a == UDPDrop {
			if r, ok := DecodeReport(d.Data); ok {
				lost[r.Slot] = true
			}
		}
		if a == UDPDuplicate {
			if r, ok := DecodeReport(d.Data); ok && cap.count[r.Slot] > 1 {
				m.Probe("c08.dup-retransmission")
			}
		}
		return a
	}
	tcpFaults := m.C.Int("w-tcp", 4)
	w.DialPolicy = func(address string) DialAction {
		switch m.C.Weighted("tcp", 4, tcpFaults, tcpFaults, tcpFaults, tcpFaults) {
		case 1:
			m.Probe("c08.sync-failed-before")
			return DialAction{Kind: 1}
		case 2: // reset before the reply
			m.Probe("c08.sync-failed-before")
			m.Fault("tcp.reset")
			return DialAction{Serve: func(c net.Conn) { c.Close() }}
		case 3: // reply cut short
			m.Probe("c08.sync-failed-before")
			m.Fault("tcp.short")
			k := 1 + m.C.Int("cut", 700)
			return DialAction{Wrap: func(c net.Conn) net.Conn { return &cutConn{Conn: c, left: k} }}
		case 4: // one byte of the reply flipped
			m.Probe("c08.sync-failed-before")
			m.Fault("tcp.corrupt")
			k := m.C.Int("flip-at", 700)
			return DialAction{Wrap: func(c net.Conn) net.Conn { return &flipConn{Conn: c, at: k} }}
		}
		return DialAction{}
	}
	ticks := 30 + m.C.Int("ticks", 120)
	slot := start
	var errorRows []int
	if m.C.Chance("reading-at-origin", 2, 3) {
		// The very first slot of the device's history (timeslot == origin).
		cl.MeterAppend(start, c08Readings[m.C.Int("reading", len(c08Readings))], m.C.Int("sec", 300))
		m.Probe("c08.reading-at-origin")
	}
	cOffset := func(n *ServerNode) uint32 { return n.Snap().Offset }
	for i := 0; i < ticks; i++ {
		if m.C.Chance("new-slot", 1, 2) {
			slot++
			SetSlot(slot)
			v := c08Readings[m.C.Int("reading", len(c08Readings))]
			if v[0] == '-' {
				m.Probe("c08.negative-reading")
			}
			if v == "10" || v == "-3" || v == "error" {
				m.Probe("c08.sentinel-reading")
			}
			cl.MeterAppend(slot, v, m.C.Int("sec", 300))
			if v == "error" {
				errorRows = append(errorRows, len(cl.Rows)-1)
			}
		}
		if len(errorRows) > 0 && m.C.Chance("meter-corrects-row", 1, 10) {
			// The meter rewrites a row it had left unreadable with a proper value.
			// The reading the device has already acted on for that slot stands:
			// whatever is sent for it later is the same datagram.
			idx := errorRows[0]
			errorRows = errorRows[1:]
			rows := append([]string{}, cl.Rows...)
			ts, _, _ := strings.Cut(rows[idx], ",")
			rows[idx] = ts + ",5000"
			cl.MeterRewrite(rows)
			m.Probe("c08.corrected-row")
		}
		switch m.C.Weighted("event", 40, 1, 1, 1, 1) {
		case 4: // a long outage: days pass (the window still holds the older slots)
			if servers[0].Up {
				off := cOffset(servers[0])
				jump := uint32(300 + m.C.Int("outage-slots", 700))
				if slot+jump < off+3100 {
					slot += jump
					SetSlot(slot)
					m.Probe("c08.long-outage")
				}
			}
		case 1: // a server goes down or comes back
			n := servers[m.C.Int("which", len(servers))]
			if n.Up {
				n.Stop()
			} else if err := n.Start(); err != nil {
				m.Fail("C08.start", "server-restart", "server does not restart: %v", err)
			} else {
				m.Probe("c08.server-restart")
			}
		case 2: // the week rotates: the clock jumps past the trigger
			if servers[0].Up {
				off := cOffset(servers[0])
				if slot < off+3201 {
					slot = off + 3201 + uint32(m.C.Int("past", 200))
					SetSlot(slot)
					m.Probe("c08.rotation")
				}
			}
		case 3:
			w.Advance(time.Duration(m.C.Int("pause-ms", 400)) * time.Millisecond)
		}
		w.Advance(62 * time.Millisecond)
		w.PumpUDP()
	}

	// ---- faults stop ---------------------------------------------------------------
	w.Phase = "faults-stopped"
	w.UDPPolicy = nil
	w.DialPolicy = nil
	for _, n := range servers {
		if !n.Up {
			if err := n.Start(); err != nil {
				m.Fail("C08.start", "server-restart", "server does not restart: %v", err)
			}
		}
	}
	w.PumpUDP()
	// The final round must be the only one: the client's own loop is held at
	// its next tick (a stalled thread - it launches no further rounds) and
	// rounds that are still in flight get the time to finish.
	w.S.Hold(cl.Name + ":send.wake")
	w.S.Hold(cl.Name + ":send.tick")
	w.Advance(3 * time.Second)
	w.PumpUDP()
	for _, n := range servers {
		c01SyncRotations(w, n)
	}
	// One sync round against reachable servers - or two that overlap: while the
	// first one is between two retransmissions, a second complete round runs
	// (it may pick another server). Each round that completed owes its own
	// server the full coverage.
	var ok, okB bool
	var rerr, rerrB error
	latest := slot
	dialBy := map[int64][]string{}
	var gidA, gidB int64
	w.DialPolicy = func(address string) DialAction {
		dialBy[goid()] = append(dialBy[goid()], address)
		return DialAction{}
	}
	startedB := false
	if ns >= 2 && m.C.Chance("overlapping-final-rounds", 1, 3) {
		after := 1 + m.C.Int("overlap-after-resends", 4)
		resends := 0
		w.OnPark = func(p *Parked) {
			if startedB || p.Site != "csync.resend" {
				return
			}
			if resends++; resends < after {
				return
			}
			startedB = true
			tb := w.Do("sync-round-b", func() { gidB = goid(); okB, rerrB = cl.C.VerifSyncRound(latest) })
			if tb.Panic != nil {
				m.Fail("C08.panic", "sync-round", "sync round panicked: %v\n%s", tb.Panic, firstRepoFrames(tb.Stack))
			}
			m.Probe("c08.overlapping-rounds")
		}
	}
	t := w.Do("sync-round", func() { gidA = goid(); ok, rerr = cl.C.VerifSyncRound(latest) })
	w.OnPark = nil
	if t.Panic != nil {
		m.Fail("C08.panic", "sync-round", "sync round panicked: %v\n%s", t.Panic, firstRepoFrames(t.Stack))
	}
	if rerr != nil || !ok || (startedB && (rerrB != nil || !okB)) {
		m.Fail("C08.cover", "round", "with every server reachable and no faults a sync round still fails (ok=%v err=%v; overlapping round started=%v ok=%v err=%v)", ok, rerr, startedB, okB, rerrB)
	}
	w.PumpUDP()
	var contacted *ServerNode
	if d := dialBy[gidA]; len(d) > 0 {
		contacted = w.nodeAt(d[len(d)-1])
	}
	if contacted == nil {
		m.Fail("C08.cover", "round", "a sync round succeeded without dialling one of the device's servers (%v)", dialBy[gidA])
	}
	if d := dialBy[gidB]; startedB && len(d) > 0 {
		// The overlapping round's own server: same obligation.
		if cb := w.nodeAt(d[len(d)-1]); cb != nil && cb != contacted {
			sb := cb.Snap()
			hb := map[uint32]bool{}
			for _, s := range sb.Reports[dev.ID] {
				hb[sb.Offset+s.Index] = true
			}
			for t := start; t <= slot; t++ {
				if t < sb.Offset || t >= sb.Offset+4032 || cl.HistoryValue(t) < 2 || int64(t) < int64(Slot())-432 || int64(t) > int64(Slot())+432 {
					continue
				}
				if !hb[t] {
					m.Fail("C08.cover", "slot", "two overlapping sync rounds completed; the one against %s left timeslot %d (reading %d) without a record on that server", cb.Name, t, cl.HistoryValue(t))
				}
			}
			m.Probe("c08.overlapping-rounds-two-servers")
		}
	}
	w.S.Unhold(cl.Name + ":send.wake")
	w.S.Unhold(cl.Name + ":send.tick")
	snap := contacted.Snap()
	now := Slot()
	have := map[uint32]bool{}
	for _, s := range snap.Reports[dev.ID] {
		have[snap.Offset+s.Index] = true
		if s.Report.PowerOutput == 1 {
			m.Fail("C08.selfban", "slot", "timeslot %d of the device is banned on %s", snap.Offset+s.Index, contacted.Name)
		}
	}
	recovered := 0
	var oldSlots []uint32
	for t := start; t <= slot; t++ {
		if t < snap.Offset || t >= snap.Offset+4032 {
			continue
		}
		if cl.HistoryValue(t) < 2 {
			continue
		}
		if int64(t) < int64(now)-432 || int64(t) > int64(now)+432 {
			// Outside the documented acceptance range nothing is owed - unless
			// this server's range is in fact wider (probed after this pass).
			if !have[t] {
				oldSlots = append(oldSlots, t)
			}
			continue
		}
		if !have[t] {
			m.Fail("C08.cover", "slot", "after faults stopped and a sync round completed against %s, timeslot %d (reading %d in the device's history, now=%d, window offset %d) has no record on that server", contacted.Name, t, cl.HistoryValue(t), now, snap.Offset)
		}
		if lost[t] && cap.count[t] > 1 {
			recovered++
		}
	}
	// The acceptance range that counts is the server's own: the datagram of
	// every unrecovered older slot is handed to it (end of the run, the state
	// is not used afterwards); a server that stores it accepts more than the
	// device retransmits.
	for _, t := range oldSlots {
		probe := cap.first[t]
		if probe == nil {
			probe = SignedReport(dev.Key, dev.ID, t, uint64(int32(cl.HistoryValue(t)))).Encode()
		}
		contacted.Datagram(probe)
		for _, sl := range contacted.Snap().Reports[dev.ID] {
			if snap.Offset+sl.Index == t {
				m.Fail("C08.cover", "server-accepts", "after faults stopped and a sync round completed against %s, timeslot %d (reading %d, now=%d) has no record although that server still accepts a report for it: its acceptance range is wider than what the device retransmits", contacted.Name, t, cl.HistoryValue(t), now)
			}
		}
		m.Probe("c08.old-slot-probed")
	}
	m.NoteState(len(have), len(lost), recovered, snap.Offset, ns)
	if recovered > 0 {
		m.Probe("c08.recovered-by-retransmission")
		m.Probe("nontrivial")
	}
	for _, n := range servers {
		s := n.Snap()
		for _, sl := range s.Reports[dev.ID] {
			if sl.Report.PowerOutput == 1 {
				m.Fail("C08.selfban", "slot", "timeslot %d of the device is banned on %s", s.Offset+sl.Index, n.Name)
			}
		}
	}
}

// cutConn delivers only the first 'left' bytes of what the peer sends.
type cutConn struct {
	net.Conn
	left int
}

func (c *cutConn) Read(p []byte) (int, error) {
	if c.left <= 0 {
		c.Conn.Close()
		return 0, fmt.Errorf("connection reset by peer")
	}
	if len(p) > c.left {
		p = p[:c.left]
	}
	n, err := c.Conn.Read(p)
	c.left -= n
	return n, err
}

// flipConn flips one bit of the byte stream at offset 'at'.
type flipConn struct {
	net.Conn
	at  int
	pos int
}

func (c *flipConn) Read(p []byte) (int, error) {
	n, err := c.Conn.Read(p)
	if c.at >= c.pos && c.at < c.pos+n {
		p[c.at-c.pos] ^= 0x10
	}
	c.pos += n
	return n, err
}
