package sim

// ClientNode is one monitoring device process (filled in by client_world).
type ClientNode struct{}

// Stop closes the client.
func (c *ClientNode) Stop() {}
