package sim

// client_world.go: the monitoring device process - the real client.Client
// running inside the bubble - and the meter that writes its energy file.

import (
	"encoding/binary"
	"fmt"
	"math/rand/v2"
	"os"
	"path/filepath"
	"sort"
	"strings"
	"sync"

	"github.com/glowlabs-org/gca-backend/client"
	"github.com/glowlabs-org/gca-backend/glow"
)

// ClientNode is one monitoring device process.
type ClientNode struct {
	W       *World
	Name    string
	Dir     string
	C       *client.Client
	Up      bool
	Dev     *Device
	Rows    []string // current content of the energy file (without header)
	Header  string
	Origin  uint32
	Started int
}

// seededReader replaces crypto/rand.Reader: the client's server shuffle and
// tick jitter then replay. The stream is derived from one draw of the tape.
type seededReader struct {
	mu  sync.Mutex
	rng *rand.Rand
}

func (r *seededReader) Read(p []byte) (int, error) {
	r.mu.Lock()
	defer r.mu.Unlock()
	for i := range p {
		p[i] = byte(r.rng.UintN(256))
	}
	return len(p), nil
}

type worldReader struct{}

func (worldReader) Read(p []byte) (int, error) {
	w := cur
	if w == nil || w.rand == nil {
		for i := range p {
			p[i] = 0
		}
		return len(p), nil
	}
	return w.rand.Read(p)
}

// SeedRandom installs the seeded randomness source for this run.
func (w *World) SeedRandom() {
	s := uint64(w.C.Int("rand-seed", 1<<30))
	w.rand = &seededReader{rng: rand.New(rand.NewPCG(s, 0x9e3779b97f4a7c15))}
}

// AddClient prepares the directory of a client (not started yet).
func (w *World) AddClient(name string, dev *Device, gca glow.PublicKey, servers []*ServerNode, origin uint32) *ClientNode {
	c := &ClientNode{W: w, Name: name, Dir: filepath.Join(w.Dir, name), Dev: dev, Origin: origin, Header: "timestamp,energy (mWh)"}
	must(os.MkdirAll(c.Dir, 0755))
	var keys [64]byte
	copy(keys[:32], dev.Key.Pub[:])
	copy(keys[32:], dev.Key.Priv[:])
	must(os.WriteFile(filepath.Join(c.Dir, client.ClientKeyFile), keys[:], 0644))
	must(os.WriteFile(filepath.Join(c.Dir, client.GCAPubKeyFile), gca[:], 0644))
	m := map[glow.PublicKey]client.GCAServer{}
	for _, s := range servers {
		m[s.Key.Pub] = client.GCAServer{Location: s.Loc, HttpPort: s.HTTP, TcpPort: s.TCP, UdpPort: s.UDP}
	}
	c.WriteServerMap(m)
	var hist [4]byte
	binary.LittleEndian.PutUint32(hist[:], origin)
	must(os.WriteFile(filepath.Join(c.Dir, client.HistoryFile), hist[:], 0644))
	var sid [4]byte
	binary.LittleEndian.PutUint32(sid[:], dev.ID)
	must(os.WriteFile(filepath.Join(c.Dir, client.ShortIDFile), sid[:], 0644))
	c.flushMeter()
	w.Clients[name] = c
	return c
}

// WriteServerMap writes gcaServers.dat in a canonical order.
func (c *ClientNode) WriteServerMap(m map[glow.PublicKey]client.GCAServer) {
	// SerializeGCAServerMap iterates a map; the file content is a set, the
	// order does not matter to the loader.
	// Written with the harness's own encoder of the documented layout (key,
	// ban byte, location length as a little-endian uint16, location, three
	// little-endian uint16 ports): the set-up must not depend on the
	// serializer under test.
	var raw []byte
	for _, k := range sortedServerKeys(m) {
		e := m[k]
		raw = append(raw, k[:]...)
		if e.Banned {
			raw = append(raw, 1)
		} else {
			raw = append(raw, 0)
		}
		raw = binary.LittleEndian.AppendUint16(raw, uint16(len(e.Location)))
		raw = append(raw, e.Location...)
		raw = binary.LittleEndian.AppendUint16(raw, e.HttpPort)
		raw = binary.LittleEndian.AppendUint16(raw, e.TcpPort)
		raw = binary.LittleEndian.AppendUint16(raw, e.UdpPort)
	}
	must(os.WriteFile(filepath.Join(c.Dir, client.GCAServerMapFile), raw, 0644))
}

func (c *ClientNode) flushMeter() {
	content := c.Header + "\n" + strings.Join(c.Rows, "\n")
	if len(c.Rows) > 0 {
		content += "\n"
	}
	must(os.WriteFile(filepath.Join(c.Dir, "energy_data.csv"), []byte(content), 0644))
}

// MeterAppend appends a reading for a timeslot (value as written by the
// meter firmware, e.g. "5100" or "-300.5" or "error").
func (c *ClientNode) MeterAppend(slot uint32, value string, secInSlot int) {
	ts := int64(BubbleEpoch) + int64(slot)*300 + int64(secInSlot)
	c.Rows = append(c.Rows, fmt.Sprintf("%d,%s", ts, value))
	c.flushMeter()
}

// MeterRewrite replaces the file content.
func (c *ClientNode) MeterRewrite(rows []string) {
	c.Rows = append([]string{}, rows...)
	c.flushMeter()
}

// Start boots a client incarnation.
func (c *ClientNode) Start() error {
	var err error
	var cl *client.Client
	w := c.W
	w.S.mu.Lock()
	w.S.constructing = c.Name
	w.S.mu.Unlock()
	t := w.Do("start@"+c.Name, func() {
		cl, err = client.NewClient(c.Dir)
	})
	w.S.mu.Lock()
	w.S.constructing = ""
	w.S.mu.Unlock()
	if t.Panic != nil {
		w.Fail(w.Prop+".panic", "client-start", "client start panicked: %v\n%s", t.Panic, firstRepoFrames(t.Stack))
	}
	if err != nil {
		return err
	}
	c.C = cl
	c.Up = true
	c.Started++
	w.Settle()
	return nil
}

// Stop closes the client.
func (c *ClientNode) Stop() {
	if !c.Up {
		return
	}
	cl := c.C
	c.Up = false
	w := c.W
	w.S.mu.Lock()
	for k := range w.S.hold {
		if strings.HasPrefix(k, c.Name+":") {
			delete(w.S.hold, k)
		}
	}
	w.S.mu.Unlock()
	t := w.Do("close@"+c.Name, func() { cl.Close() })
	if t.Panic != nil {
		w.Fail(w.Prop+".panic", "client-close", "client Close panicked: %v\n%s", t.Panic, firstRepoFrames(t.Stack))
	}
	w.S.mu.Lock()
	delete(w.S.ownerNode, interface{}(cl))
	w.S.mu.Unlock()
	c.C = nil
}

// HistoryFile returns the raw history file.
func (c *ClientNode) HistoryFile() []byte {
	b, _ := os.ReadFile(filepath.Join(c.Dir, client.HistoryFile))
	return b
}

// HistoryValue reads the stored reading of a slot straight from the file
// (independent reader of the documented layout: 4 byte origin, 4 bytes per
// slot).
func (c *ClientNode) HistoryValue(slot uint32) uint32 {
	f, err := os.Open(filepath.Join(c.Dir, client.HistoryFile))
	if err != nil {
		return 0
	}
	defer f.Close()
	var b [4]byte
	if _, err := f.ReadAt(b[:], 0); err != nil {
		return 0
	}
	origin := binary.LittleEndian.Uint32(b[:])
	if slot < origin {
		return 0
	}
	off := 4 * (1 + int64(slot) - int64(origin))
	if _, err := f.ReadAt(b[:], off); err != nil {
		return 0
	}
	return binary.LittleEndian.Uint32(b[:])
}

// ServerMapFile decodes gcaServers.dat.
func (c *ClientNode) ServerMapFile() (map[glow.PublicKey]client.GCAServer, error) {
	b, err := os.ReadFile(filepath.Join(c.Dir, client.GCAServerMapFile))
	if err != nil {
		return nil, err
	}
	return client.UntrustedDeserializeGCAServerMap(b)
}

// sortedServerKeys lists the keys of a server map in canonical order.
func sortedServerKeys(m map[glow.PublicKey]client.GCAServer) []glow.PublicKey {
	var ks []glow.PublicKey
	for k := range m {
		ks = append(ks, k)
	}
	sort.Slice(ks, func(i, j int) bool { return string(ks[i][:]) < string(ks[j][:]) })
	return ks
}
