// automutate lists small token-level mutants of the repository's source files:
// comparison operators swapped with their neighbours, && / || swapped, and
// selected integer literals moved by one. Output: one JSON object per line
// {file, offset, line, old, new}. The driver (tools/automutate.py) applies
// them one at a time to scratch worktrees and runs the checks of the
// properties anchored in that file.
package main

import (
	"encoding/json"
	"fmt"
	"go/scanner"
	"go/token"
	"os"
	"path/filepath"
	"strconv"
	"strings"
)

type mutant struct {
	File   string `json:"file"`
	Offset int    `json:"offset"`
	Line   int    `json:"line"`
	Old    string `json:"old"`
	New    string `json:"new"`
	Text   string `json:"text"`
}

func main() {
	root := os.Args[1]
	enc := json.NewEncoder(os.Stdout)
	for _, rel := range os.Args[2:] {
		src, err := os.ReadFile(filepath.Join(root, rel))
		if err != nil {
			fmt.Fprintln(os.Stderr, err)
			continue
		}
		lines := strings.Split(string(src), "\n")
		fset := token.NewFileSet()
		f := fset.AddFile(rel, fset.Base(), len(src))
		var s scanner.Scanner
		s.Init(f, src, nil, 0)
		for {
			pos, tok, lit := s.Scan()
			if tok == token.EOF {
				break
			}
			p := fset.Position(pos)
			text := ""
			if p.Line-1 < len(lines) {
				text = strings.TrimSpace(lines[p.Line-1])
			}
			if strings.Contains(text, "Verif") {
				continue
			}
			emit := func(old, new string) {
				enc.Encode(mutant{File: rel, Offset: p.Offset, Line: p.Line, Old: old, New: new, Text: text})
			}
			switch tok {
			case token.LSS:
				emit("<", "<=")
			case token.LEQ:
				emit("<=", "<")
			case token.GTR:
				emit(">", ">=")
			case token.GEQ:
				emit(">=", ">")
			case token.EQL:
				emit("==", "!=")
			case token.NEQ:
				emit("!=", "==")
			case token.LAND:
				emit("&&", "||")
			case token.LOR:
				emit("||", "&&")
			case token.INT:
				if n, err := strconv.ParseInt(lit, 0, 64); err == nil && n >= 2 && n <= 100000 {
					emit(lit, strconv.FormatInt(n+1, 10))
					emit(lit, strconv.FormatInt(n-1, 10))
				}
			}
		}
	}
}
