// Command check is the parent side of every registered check: it rebuilds the
// simulation worker from /repo's working tree, runs one worker process per
// core, examines dead workers, minimises and confirms violations, applies the
// known-findings file, writes the evidence file and prints the verdict lines.
//
// Exit codes: 0 property held on everything explored (KNOWN-FINDING lines
// allowed), 1 VIOLATION (confirmed from its replay file in a fresh process),
// 2 build failure, hook mismatch, watchdog, replay divergence or any other
// harness trouble.
package main

import (
	"bytes"
	"encoding/json"
	"flag"
	"fmt"
	"os"
	"os/exec"
	"path/filepath"
	"runtime"
	"sort"
	"strconv"
	"strings"
	"sync"
	"time"
)

type Draw struct {
	L string `json:"l"`
	N int    `json:"n"`
	V int    `json:"v"`
}

type ViolationRecord struct {
	Property string         `json:"property"`
	Flavour  string         `json:"flavour"`
	Seed     int64          `json:"seed"`
	Run      int            `json:"run"`
	Tier     string         `json:"tier"`
	Tape     []int          `json:"tape"`
	Draws    []Draw         `json:"draws,omitempty"`
	Rule     string         `json:"rule"`
	Site     string         `json:"site"`
	Detail   string         `json:"detail"`
	Trace    []string       `json:"trace,omitempty"`
	Faults   map[string]int `json:"faults,omitempty"`
	// Set by the parent.
	Minimised   bool   `json:"minimised,omitempty"`
	OriginalLen int    `json:"original_tape_len,omitempty"`
	ReplayCmd   string `json:"replay_cmd,omitempty"`
}

func (v *ViolationRecord) Key() string { return v.Rule + "@" + v.Site }

type RunResult struct {
	Run      int            `json:"run"`
	Sig      string         `json:"sig"`
	Draws    int            `json:"draws"`
	Preempts int            `json:"preempts"`
	Faults   map[string]int `json:"faults"`
	Probes   map[string]int `json:"probes"`
	SimNs    int64          `json:"sim_ns"`
	WallUs   int64          `json:"wall_us"`
	States   []string       `json:"states"`
	Sites    map[string]int `json:"sites"`
	Sample   []string       `json:"sample"`
	Nontriv  bool           `json:"nontrivial"`
}

type Describe struct {
	ID             string   `json:"id"`
	Flavour        string   `json:"flavour"`
	Rule           string   `json:"rule"`
	Real           []string `json:"real"`
	Stub           []string `json:"stub"`
	Assumptions    []string `json:"assumptions"`
	RequiredProbes []string `json:"required_probes"`
	Level          string   `json:"level"`
	NotInjected    []string `json:"not_injected"`
	RequiredSites  []string `json:"required_sites"`
}

type Finding struct {
	Property string `json:"property"`
	Key      string `json:"key"`
	What     string `json:"what"`
	Status   string `json:"status"`
	Commit   string `json:"commit,omitempty"`
}

var (
	verifDir = "/verif"
	repoDir  = "/repo"
	simDir   string
	buildDir string
	// artifactDir receives evidence/ and replays/ (default: verifDir).
	artifactDir string
)

// flavours of each property: which worker binary runs it.
var propFlavour = map[string]string{
	"C20": "P",
}

// extraFlavour lists properties that are additionally explored in a second
// build flavour (a third of the budget).
var extraFlavour = map[string]string{
	"C13": "P",
	"C12": "P",
}

func goEnv() []string {
	env := os.Environ()
	env = append(env, "GOFLAGS=-mod=mod", "GOPROXY=off", "GOSUMDB=off", "GOTOOLCHAIN=local", "CGO_ENABLED=1")
	return env
}

func goBin() string {
	for _, p := range []string{"/opt/veriftools/go1.26.8/bin/go", "/opt/veriftools/go1.26/bin/go"} {
		if _, err := os.Stat(p); err == nil {
			return p
		}
	}
	if p, err := exec.LookPath("go1.26.8"); err == nil {
		return p
	}
	return "go"
}

func build(flavour string, race bool) (string, error) {
	os.MkdirAll(buildDir, 0755)
	// go.sum must match the repository's.
	if b, err := os.ReadFile(filepath.Join(repoDir, "go.sum")); err == nil {
		old, _ := os.ReadFile(filepath.Join(simDir, "go.sum"))
		if !bytes.Contains(old, b[:min(len(b), 200)]) {
			os.WriteFile(filepath.Join(simDir, "go.sum"), b, 0644)
		}
	}
	tags := "verif"
	if flavour == "T" {
		tags = "test verif"
	}
	name := "sim-" + flavour
	args := []string{"test", "-c", "-tags", tags, "-o"}
	if race {
		name += "-race"
		args = []string{"test", "-c", "-race", "-tags", tags, "-o"}
	}
	out := filepath.Join(buildDir, name+".test")
	if repoDir != "/repo" {
		// A scratch copy of the repository (sensitivity runs): same module
		// file with the replace directive pointing at the copy.
		gm, err := os.ReadFile(filepath.Join(simDir, "go.mod"))
		if err != nil {
			return "", err
		}
		alt := filepath.Join(buildDir, "go.alt.mod")
		os.WriteFile(alt, bytes.ReplaceAll(gm, []byte("=> /repo"), []byte("=> "+repoDir)), 0644)
		gs, _ := os.ReadFile(filepath.Join(simDir, "go.sum"))
		os.WriteFile(filepath.Join(buildDir, "go.alt.sum"), gs, 0644)
		args = append(args[:2], append([]string{"-modfile=" + alt}, args[2:]...)...)
	}
	args = append(args, out, ".")
	cmd := exec.Command(goBin(), args...)
	cmd.Dir = simDir
	cmd.Env = goEnv()
	var buf bytes.Buffer
	cmd.Stdout = &buf
	cmd.Stderr = &buf
	if err := cmd.Run(); err != nil {
		return "", fmt.Errorf("build of the %s-flavour worker failed: %v\n%s", flavour, err, buf.String())
	}
	return out, nil
}

type workerOutcome struct {
	name     string
	exit     int
	stderr   string
	viol     *ViolationRecord
	lastRun  int
	finished bool
}

func runWorker(bin string, env []string, outDir, name string, timeout time.Duration) workerOutcome {
	cmd := exec.Command(bin, "-test.run", "^TestWorker$", "-test.cpu", "1", "-test.timeout", "0")
	cmd.Env = append(append(os.Environ(), env...), "VERIF_OUT="+outDir, "VERIF_WORKER="+name, "VERIF_SCRATCH="+filepath.Join(outDir, "scratch"))
	var errb bytes.Buffer
	cmd.Stdout = &errb
	cmd.Stderr = &errb
	os.Remove(filepath.Join(outDir, "violation-"+name+".json"))
	done := make(chan error, 1)
	if err := cmd.Start(); err != nil {
		return workerOutcome{name: name, exit: 99, stderr: err.Error()}
	}
	go func() { done <- cmd.Wait() }()
	var err error
	select {
	case err = <-done:
	case <-time.After(timeout):
		cmd.Process.Kill()
		<-done
		return workerOutcome{name: name, exit: 98, stderr: "parent timeout\n" + errb.String()}
	}
	o := workerOutcome{name: name, stderr: errb.String()}
	if err != nil {
		if ee, ok := err.(*exec.ExitError); ok {
			o.exit = ee.ExitCode()
		} else {
			o.exit = 99
		}
	}
	if b, e := os.ReadFile(filepath.Join(outDir, "current-"+name)); e == nil {
		o.lastRun, _ = strconv.Atoi(strings.TrimSpace(string(b)))
	}
	if o.exit == 3 {
		if b, e := os.ReadFile(filepath.Join(outDir, "violation-"+name+".json")); e == nil {
			var v ViolationRecord
			if json.Unmarshal(b, &v) == nil {
				o.viol = &v
			}
		}
		if o.viol == nil {
			o.exit = 97
		}
	}
	return o
}

// panicSite extracts a stable key from the stderr of a dead worker.
func panicSite(stderr string) (string, bool) {
	i := strings.Index(stderr, "\npanic: ")
	if i < 0 {
		if strings.HasPrefix(stderr, "panic: ") {
			i = 0
		} else if j := strings.Index(stderr, "fatal error: "); j >= 0 {
			i = j
		} else {
			return "", false
		}
	}
	rest := stderr[i:]
	// Only the panicking goroutine's stack (up to the first blank line after
	// the first "goroutine" header).
	g := rest
	if k := strings.Index(rest, "\ngoroutine "); k >= 0 {
		g = rest[k+1:]
		if e := strings.Index(g, "\n\n"); e >= 0 {
			g = g[:e]
		}
	}
	for _, l := range strings.Split(g, "\n") {
		if strings.Contains(l, "gca-backend/") && !strings.HasPrefix(l, "\t") && !strings.Contains(l, "Verif") {
			l = strings.TrimSpace(l)
			if k := strings.LastIndex(l, "/"); k >= 0 {
				l = l[k+1:]
			}
			if k := strings.LastIndex(l, "("); k > 0 {
				l = l[:k]
			}
			return l, true
		}
	}
	return "", false
}

// lifetimePanic recognises the test build's "lived for 120 seconds" panics,
// which are a limit of the harness configuration, never a property violation.
func lifetimePanic(stderr string) bool {
	return strings.Contains(stderr, "lived for longer than 120 seconds") || strings.Contains(stderr, "client was not closed during testing")
}

func panicMessage(stderr string) string {
	i := strings.Index(stderr, "panic: ")
	if i < 0 {
		i = strings.Index(stderr, "fatal error: ")
	}
	if i < 0 {
		return ""
	}
	l := stderr[i:]
	if k := strings.Index(l, "\n"); k >= 0 {
		l = l[:k]
	}
	return l
}

// singleRun executes one run (from a tape file or from seed/run) in a fresh
// process and returns its outcome as a violation record (nil = passed).
func singleRun(bin string, prop string, rec *ViolationRecord, strict bool, outDir string, name string) (*ViolationRecord, int, string) {
	tf := filepath.Join(outDir, "tape-"+name+".json")
	b, _ := json.Marshal(rec)
	os.WriteFile(tf, b, 0644)
	stream := filepath.Join(outDir, "stream-"+name)
	os.Remove(stream)
	env := []string{"VERIF_PROP=" + prop, "VERIF_TAPE=" + tf, "VERIF_TAPE_STREAM=" + stream, "VERIF_TIER=" + rec.Tier}
	if strict {
		env = append(env, "VERIF_STRICT=1")
	}
	o := runWorker(bin, env, outDir, name, 10*time.Minute)
	os.Remove(tf)
	defer os.Remove(stream)
	switch {
	case o.exit == 0:
		return nil, 0, ""
	case o.exit == 3 && o.viol != nil:
		return o.viol, 3, ""
	case o.exit == 4 || o.exit >= 90:
		return nil, o.exit, o.stderr
	default:
		site, ok := panicSite(o.stderr)
		if !ok || lifetimePanic(o.stderr) {
			return nil, 96, o.stderr
		}
		v := *rec
		v.Rule = prop + ".panic"
		v.Site = site
		v.Detail = "process died: " + panicMessage(o.stderr)
		v.Draws = nil
		// The tape as far as the dead process got.
		if sb, err := os.ReadFile(stream); err == nil {
			var t []int
			for _, f := range strings.Fields(string(sb)) {
				n, _ := strconv.Atoi(f)
				t = append(t, n)
			}
			v.Tape = t
		}
		v.Trace = tailLines(o.stderr, 40)
		return &v, 3, ""
	}
}

func tailLines(s string, n int) []string {
	ls := strings.Split(strings.TrimSpace(s), "\n")
	if len(ls) > n {
		// keep the head of the panic, which is the interesting part
		i := 0
		for k, l := range ls {
			if strings.HasPrefix(l, "panic: ") || strings.HasPrefix(l, "fatal error: ") {
				i = k
				break
			}
		}
		ls = ls[i:]
		if len(ls) > n {
			ls = ls[:n]
		}
	}
	return ls
}

// minimise shrinks the tape of a violation while the same key persists.
func minimise(bin, prop string, v *ViolationRecord, outDir string, budget time.Duration, par int) *ViolationRecord {
	deadline := time.Now().Add(budget)
	best := *v
	key := v.Key()
	tried := 0
	try := func(cands [][]int) *ViolationRecord {
		// Evaluate candidates in parallel, accept the first (lowest index)
		// that reproduces the same violation key.
		results := make([]*ViolationRecord, len(cands))
		var wg sync.WaitGroup
		sem := make(chan struct{}, par)
		for i := range cands {
			if time.Now().After(deadline) {
				break
			}
			wg.Add(1)
			sem <- struct{}{}
			go func(i int) {
				defer wg.Done()
				defer func() { <-sem }()
				rec := best
				rec.Tape = cands[i]
				rec.Draws = nil
				r, _, _ := singleRun(bin, prop, &rec, false, outDir, fmt.Sprintf("min%d", i))
				if r != nil && r.Key() == key {
					results[i] = r
				}
			}(i)
		}
		wg.Wait()
		tried += len(cands)
		for _, r := range results {
			if r != nil {
				return r
			}
		}
		return nil
	}
	improved := true
	for improved && time.Now().Before(deadline) {
		improved = false
		t := best.Tape
		n := len(t)
		// (a) drop the tail, (b) delete chunks, (c) zero chunks.
		for size := n / 2; size >= 1 && time.Now().Before(deadline); size /= 2 {
			var cands [][]int
			for start := 0; start+size <= n; start += size {
				c := append(append([]int{}, t[:start]...), t[start+size:]...)
				cands = append(cands, c)
			}
			if len(cands) > 64 {
				cands = cands[:64]
			}
			if r := try(cands); r != nil && len(r.Tape) < len(best.Tape) {
				best = *r
				improved = true
				break
			}
			cands = cands[:0]
			for start := 0; start+size <= n; start += size {
				allZero := true
				for _, x := range t[start : start+size] {
					if x != 0 {
						allZero = false
					}
				}
				if allZero {
					continue
				}
				c := append([]int{}, t...)
				for k := start; k < start+size; k++ {
					c[k] = 0
				}
				cands = append(cands, c)
			}
			if len(cands) > 64 {
				cands = cands[:64]
			}
			if r := try(cands); r != nil && tapeLess(r.Tape, best.Tape) {
				best = *r
				improved = true
				break
			}
		}
		if improved {
			continue
		}
		// (d) halve individual values.
		var cands [][]int
		for i, x := range t {
			if x > 1 {
				c := append([]int{}, t...)
				c[i] = x / 2
				cands = append(cands, c)
			}
		}
		if len(cands) > 64 {
			cands = cands[:64]
		}
		if r := try(cands); r != nil && tapeLess(r.Tape, best.Tape) {
			best = *r
			improved = true
		}
	}
	best.Minimised = true
	best.OriginalLen = len(v.Tape)
	fmt.Printf("minimised %s: tape %d -> %d draws (%d candidate runs)\n", key, len(v.Tape), len(best.Tape), tried)
	return &best
}

func tapeLess(a, b []int) bool {
	if len(a) != len(b) {
		return len(a) < len(b)
	}
	sa, sb := 0, 0
	for i := range a {
		sa += a[i]
		sb += b[i]
	}
	return sa < sb
}

func loadFindings() []Finding {
	b, err := os.ReadFile(filepath.Join(verifDir, "known_findings.json"))
	if err != nil {
		return nil
	}
	var f struct {
		Findings []Finding `json:"findings"`
	}
	if json.Unmarshal(b, &f) != nil {
		return nil
	}
	return f.Findings
}

func describe(bin, prop string) (*Describe, error) {
	cmd := exec.Command(bin, "-test.run", "^TestDescribe$", "-test.v")
	cmd.Env = append(os.Environ(), "VERIF_PROP="+prop)
	out, err := cmd.CombinedOutput()
	if err != nil {
		return nil, fmt.Errorf("describe failed: %v\n%s", err, out)
	}
	i := bytes.Index(out, []byte("DESCRIBE "))
	if i < 0 {
		return nil, fmt.Errorf("property %s is not registered in this worker binary:\n%s", prop, out)
	}
	line := out[i+9:]
	if k := bytes.IndexByte(line, '\n'); k >= 0 {
		line = line[:k]
	}
	var d Describe
	if err := json.Unmarshal(line, &d); err != nil {
		return nil, err
	}
	return &d, nil
}

func main() {
	if len(os.Args) < 2 {
		fmt.Println("usage: check <property id> [--tier quick|thorough] [--replay file] | selftest-determinism [ids...]")
		os.Exit(2)
	}
	if v := os.Getenv("VERIF_DIR"); v != "" {
		verifDir = v
	}
	if v := os.Getenv("VERIF_REPO"); v != "" {
		repoDir = v
	}
	if v := os.Getenv("VERIF_ARTIFACT_DIR"); v != "" {
		artifactDir = v
	} else {
		artifactDir = verifDir
	}
	simDir = filepath.Join(verifDir, "sim")
	buildDir = filepath.Join(verifDir, ".build")
	if v := os.Getenv("VERIF_BUILD_DIR"); v != "" {
		buildDir = v
	}
	prop := os.Args[1]
	fs := flag.NewFlagSet("check", flag.ExitOnError)
	tier := fs.String("tier", os.Getenv("VERIF_TIER"), "quick or thorough")
	replay := fs.String("replay", "", "replay file")
	budgetS := fs.Int("budget", 0, "run budget in seconds (default by tier)")
	workers := fs.Int("workers", 0, "worker processes (default: cores)")
	fs.Parse(os.Args[2:])
	if *tier == "" {
		*tier = "quick"
	}
	seed := int64(1)
	if v := os.Getenv("VERIF_SEED"); v != "" {
		if n, err := strconv.ParseInt(v, 10, 64); err == nil {
			seed = n
		}
	}
	if prop == "selftest-determinism" {
		os.Exit(selftestDeterminism(fs.Args(), seed))
	}
	if v := os.Getenv("VERIF_BUDGET_S"); v != "" && *budgetS == 0 {
		*budgetS, _ = strconv.Atoi(v)
	}
	if *budgetS == 0 {
		if *tier == "thorough" {
			*budgetS = 600
		} else {
			*budgetS = 25
		}
	}
	if *workers == 0 {
		*workers = runtime.NumCPU()
		if *workers > 16 {
			*workers = 16
		}
	}
	os.Exit(check(prop, *tier, seed, *replay, time.Duration(*budgetS)*time.Second, *workers))
}

func flavourOf(prop string) string {
	if f, ok := propFlavour[prop]; ok {
		return f
	}
	return "T"
}

func check(prop, tier string, seed int64, replay string, budget time.Duration, workers int) int {
	t0 := time.Now()
	bin, err := build(flavourOf(prop), false)
	if err != nil {
		fmt.Println("HARNESS-ERROR:", err)
		return 2
	}
	desc, err := describe(bin, prop)
	if err != nil {
		fmt.Println("HARNESS-ERROR:", err)
		return 2
	}
	outDir, err := os.MkdirTemp("/dev/shm", "verif-out-")
	if err != nil {
		outDir, err = os.MkdirTemp("", "verif-out-")
		if err != nil {
			fmt.Println("HARNESS-ERROR:", err)
			return 2
		}
	}
	defer os.RemoveAll(outDir)

	if replay != "" {
		b, err := os.ReadFile(replay)
		if err != nil {
			fmt.Println("HARNESS-ERROR: cannot read replay file:", err)
			return 2
		}
		var mode struct {
			Mode string `json:"mode"`
			Rule string `json:"rule"`
			Site string `json:"site"`
			Seed int64  `json:"seed"`
			Run  int    `json:"run"`
		}
		json.Unmarshal(b, &mode)
		if mode.Mode == "race" {
			raceFocus = prop
			key := mode.Rule + "@" + mode.Site
			if raceReplay(key, mode.Seed, mode.Run, outDir, 10) {
				fmt.Printf("replayed (race mode): %s\n", key)
				fmt.Printf("VIOLATION property=%s replay=%s\n", prop, replay)
				return 1
			}
			fmt.Printf("replay of %s: the race %s did not show up in 10 re-runs of its workload\n", replay, key)
			return 0
		}
		var rec ViolationRecord
		if err := json.Unmarshal(b, &rec); err != nil {
			fmt.Println("HARNESS-ERROR: cannot parse replay file:", err)
			return 2
		}
		rbin := bin
		if rec.Flavour != "" && rec.Flavour != flavourOf(prop) {
			rbin, err = build(rec.Flavour, false)
			if err != nil {
				fmt.Println("HARNESS-ERROR:", err)
				return 2
			}
		}
		r, code, stderr := singleRun(rbin, prop, &rec, len(rec.Draws) > 0, outDir, "replay")
		if r == nil {
			if code == 0 {
				fmt.Printf("replay of %s: no violation (recorded: %s)\n", replay, rec.Key())
				return 0
			}
			fmt.Printf("HARNESS-ERROR: replay ended with code %d\n%s\n", code, stderr)
			return 2
		}
		fmt.Printf("replayed: %s: %s\n", r.Key(), r.Detail)
		if r.Key() != rec.Key() {
			fmt.Printf("HARNESS-ERROR: replay produced %s, file records %s\n", r.Key(), rec.Key())
			return 2
		}
		fmt.Printf("VIOLATION property=%s replay=%s\n", prop, replay)
		return 1
	}

	// Phase 1: exploration by one worker process per core.
	type slot struct {
		from int
	}
	var mu sync.Mutex
	var viols []*ViolationRecord
	keyCount := map[string]int{} // violations per key (distinct keys bound the search)
	var harnessErr []string
	var wg sync.WaitGroup
	explore := func(bin, prefix, flavour string, budget time.Duration) {
		deadline := time.Now().Add(budget)
		for wi := 0; wi < workers; wi++ {
			wg.Add(1)
			go func(wi int) {
				defer wg.Done()
				from := wi
				name := fmt.Sprintf("%s%d", prefix, wi)
				for restarts := 0; restarts < 400; restarts++ {
					left := time.Until(deadline)
					if left <= 0 {
						return
					}
					env := []string{"VERIF_PROP=" + prop, "VERIF_SEED=" + strconv.FormatInt(seed, 10),
						"VERIF_RUN_FROM=" + strconv.Itoa(from), "VERIF_RUN_TO=" + strconv.Itoa(1<<30),
						"VERIF_RUN_STRIDE=" + strconv.Itoa(workers), "VERIF_TIER=" + tier,
						"VERIF_BUDGET_MS=" + strconv.FormatInt(left.Milliseconds(), 10)}
					if flavour == "P" && wi%2 == 1 {
						// Production-constant runs also under a zone with daylight
						// saving: clock code must not depend on the local zone.
						env = append(env, "TZ=America/New_York")
					}
					o := runWorker(bin, env, outDir, name, left+10*time.Minute)
					if o.exit == 0 {
						return
					}
					if o.exit == 3 && o.viol != nil {
						mu.Lock()
						keyCount[o.viol.Key()]++
						if keyCount[o.viol.Key()] <= 3 {
							viols = append(viols, o.viol)
						}
						nk := len(keyCount)
						mu.Unlock()
						if nk >= 12 {
							return
						}
						from = o.viol.Run + workers
						continue
					}
					if o.exit == 4 || o.exit >= 90 {
						mu.Lock()
						harnessErr = append(harnessErr, fmt.Sprintf("worker %s exit %d:\n%s", name, o.exit, lastN(o.stderr, 3000)))
						mu.Unlock()
						return
					}
					// The process died (runtime panic on a goroutine of the
					// system under test). Re-run that run alone to confirm.
					rec := &ViolationRecord{Property: prop, Flavour: flavour, Seed: seed, Run: o.lastRun, Tier: tier}
					r, code, stderr := singleRunSeeded(bin, prop, rec, outDir, name+"-confirm")
					if r == nil {
						mu.Lock()
						harnessErr = append(harnessErr, fmt.Sprintf("worker %s died in run %d (exit %d) but the run alone ended with code %d:\n%s\n--- first death:\n%s", name, o.lastRun, o.exit, code, lastN(stderr, 2000), lastN(o.stderr, 3000)))
						mu.Unlock()
						return
					}
					mu.Lock()
					keyCount[r.Key()]++
					if keyCount[r.Key()] <= 3 {
						viols = append(viols, r)
					}
					nk := len(keyCount)
					mu.Unlock()
					if nk >= 12 {
						return
					}
					from = o.lastRun + workers
				}
			}(wi)
		}
		wg.Wait()
	}
	explore(bin, "w", flavourOf(prop), budget)
	// Supplementary flavour (e.g. the production-constant build for code that
	// only does real work there).
	binByFlavour := map[string]string{flavourOf(prop): bin}
	if xf, ok := extraFlavour[prop]; ok && os.Getenv("VERIF_SKIP_EXTRA_FLAVOUR") == "" {
		xbin, err := build(xf, false)
		if err != nil {
			fmt.Println("HARNESS-ERROR:", err)
			return 2
		}
		binByFlavour[xf] = xbin
		explore(xbin, "x", xf, budget/3)
	}
	exploreWall := time.Since(t0)

	// Phase 2: aggregate results.
	var results []RunResult
	files, _ := filepath.Glob(filepath.Join(outDir, "results-*.jsonl"))
	for _, f := range files {
		b, _ := os.ReadFile(f)
		for _, line := range bytes.Split(b, []byte("\n")) {
			if len(bytes.TrimSpace(line)) == 0 {
				continue
			}
			var r RunResult
			if json.Unmarshal(line, &r) == nil {
				results = append(results, r)
			}
		}
	}
	sort.Slice(results, func(i, j int) bool { return results[i].Run < results[j].Run })

	if len(harnessErr) > 0 {
		for i, e := range harnessErr {
			if i >= 2 {
				fmt.Printf("HARNESS-ERROR: ... and %d more workers\n", len(harnessErr)-2)
				break
			}
			fmt.Println("HARNESS-ERROR:", lastN(e, 2500))
		}
		return 2
	}

	// Phase 3: violations -> dedupe, minimise, confirm, known findings.
	exit := 0
	findings := loadFindings()
	seen := map[string]bool{}
	sort.Slice(viols, func(i, j int) bool { return viols[i].Run < viols[j].Run })
	var reported []map[string]interface{}
	nViol := 0
	unconfirmed := 0
	for _, v := range viols {
		if seen[v.Key()] {
			continue
		}
		seen[v.Key()] = true
		minBudget := 30 * time.Second
		if tier == "thorough" {
			minBudget = 90 * time.Second
		}
		isKnown := false
		for _, f := range findings {
			if f.Property == prop && f.Status == "open" && f.Key == v.Key() {
				isKnown = true
			}
		}
		if isKnown {
			minBudget = 3 * time.Second // a recorded finding: a token minimisation is enough
		}
		vbin := bin
		if b, ok := binByFlavour[v.Flavour]; ok {
			vbin = b
		}
		mv := minimise(vbin, prop, v, outDir, minBudget, workers)
		os.MkdirAll(filepath.Join(artifactDir, "replays"), 0755)
		rp := filepath.Join(artifactDir, "replays", fmt.Sprintf("%s-%d-%d.json", prop, v.Seed, v.Run))
		mv.ReplayCmd = fmt.Sprintf("bin/check %s --replay %s", prop, rp)
		// Confirm in a fresh process, exactly.
		r, code, stderr := singleRun(vbin, prop, mv, len(mv.Draws) > 0, outDir, "confirm")
		if r == nil || r.Key() != mv.Key() {
			// The minimised tape did not replay: fall back to the tape as found.
			mv = v
			mv.ReplayCmd = fmt.Sprintf("bin/check %s --replay %s", prop, rp)
			r, code, stderr = singleRun(vbin, prop, mv, len(mv.Draws) > 0, outDir, "confirm")
		}
		if r == nil || r.Key() != mv.Key() {
			// Not reproducible from its replay file: never reported as a
			// violation. If nothing else is confirmed the check ends with
			// exit 2 (harness trouble), not with a VIOLATION line.
			fmt.Printf("HARNESS-WARNING: violation %s (seed %d run %d) did not reproduce from its replay file (code %d); not reported\n%s\n", v.Key(), v.Seed, v.Run, code, lastN(stderr, 600))
			unconfirmed++
			continue
		}
		b, _ := json.MarshalIndent(mv, "", " ")
		os.WriteFile(rp, b, 0644)
		known := false
		for _, f := range findings {
			if f.Property == prop && f.Status == "open" && f.Key == mv.Key() {
				fmt.Printf("KNOWN-FINDING: property=%s %s (%s)\n", prop, f.What, f.Key)
				known = true
			}
		}
		reported = append(reported, map[string]interface{}{"key": mv.Key(), "detail": mv.Detail, "replay": rp, "known": known, "seed": v.Seed, "run": v.Run})
		if !known {
			nViol++
			fmt.Printf("violation: %s: %s\n", mv.Key(), firstLine(mv.Detail))
			fmt.Printf("VIOLATION property=%s replay=%s\n", prop, rp)
			exit = 1
		}
	}

	// Phase 3b: the auxiliary race-detector mode (C13 only).
	var raceInfo map[string]interface{}
	if (prop == "C13" || prop == "C07") && os.Getenv("VERIF_SKIP_RACE") == "" && exit == 0 {
		raceFocus = prop
		rb := budget / 2
		if rb < 8*time.Second {
			rb = 8 * time.Second
		}
		reps, workloads, trouble := racePhase(seed, rb, workers, outDir)
		if trouble != "" {
			fmt.Println("HARNESS-ERROR:", trouble)
			return 2
		}
		var keys []string
		for _, r := range reps {
			keys = append(keys, r.Key)
			again := raceReplay(r.Key, r.Seed, r.Run, outDir, 6)
			os.MkdirAll(filepath.Join(artifactDir, "replays"), 0755)
			rp := filepath.Join(artifactDir, "replays", fmt.Sprintf("%s-race-%d-%d.json", prop, r.Seed, r.Run))
			rule, site := r.Key, ""
			if k := strings.Index(r.Key, "@"); k >= 0 {
				rule, site = r.Key[:k], r.Key[k+1:]
			}
			rec := map[string]interface{}{"property": prop, "mode": "race", "focus": raceFocus, "seed": r.Seed, "run": r.Run, "rule": rule, "site": site,
				"detail": "auxiliary free-running mode under the Go race detector (not exactly replayable; replay re-runs the workload up to 10 times and looks for the same pair of access sites)", "report": r.Text, "reproduced_on_rerun": again}
			b, _ := json.MarshalIndent(rec, "", " ")
			os.WriteFile(rp, b, 0644)
			known := false
			for _, f := range findings {
				if f.Property == prop && f.Status == "open" && f.Key == r.Key {
					fmt.Printf("KNOWN-FINDING: property=%s %s (%s)\n", prop, f.What, f.Key)
					known = true
				}
			}
			reported = append(reported, map[string]interface{}{"key": r.Key, "replay": rp, "known": known, "seed": r.Seed, "run": r.Run, "mode": "race", "reproduced_on_rerun": again})
			if !known {
				nViol++
				fmt.Printf("violation: %s (race detector, free-running mode; reproduced on re-run: %v)\n", r.Key, again)
				fmt.Printf("VIOLATION property=%s replay=%s\n", prop, rp)
				exit = 1
			}
		}
		raceInfo = map[string]interface{}{"workloads_run": workloads, "goroutines_per_workload": "8-48 plus the server's background loops", "reports_in_repo_code": keys,
			"deterministic": false, "note": "sound (the race detector has no false positives) but not exactly replayable; kept because serialised simulation hides data races from the detector"}
	}

	// Phase 4: evidence.
	ev := buildEvidence(prop, tier, seed, desc, results, len(viols), reported, exploreWall, time.Since(t0), workers)
	eb, _ := json.MarshalIndent(ev, "", " ")
	os.MkdirAll(filepath.Join(artifactDir, "evidence"), 0755)
	if err := os.WriteFile(filepath.Join(artifactDir, "evidence", prop+".json"), eb, 0644); err != nil {
		fmt.Println("HARNESS-ERROR: cannot write evidence:", err)
		return 2
	}
	if raceInfo != nil {
		ev["coverage"].(map[string]interface{})["race_mode"] = raceInfo
		eb, _ = json.MarshalIndent(ev, "", " ")
		os.WriteFile(filepath.Join(artifactDir, "evidence", prop+".json"), eb, 0644)
	}
	cov := ev["coverage"].(map[string]interface{})
	fmt.Printf("%s %s: %v runs, %v distinct non-trivial, %v distinct states, simulated %v, wall %.1fs, violations %d\n",
		prop, tier, cov["evaluations"], cov["distinct_nontrivial"], cov["distinct_states"], cov["simulated_time"], time.Since(t0).Seconds(), nViol)
	if exit == 0 && len(results) == 0 {
		fmt.Println("HARNESS-ERROR: no run completed")
		return 2
	}
	if exit == 0 && unconfirmed > 0 {
		fmt.Printf("HARNESS-ERROR: %d violation(s) were seen but none reproduced from its replay file\n", unconfirmed)
		return 2
	}
	if exit == 0 && len(results) >= 50 {
		sites := cov["hook_sites_reached"].(map[string]int)
		for _, st := range desc.RequiredSites {
			if sites[st] == 0 {
				fmt.Printf("HARNESS-ERROR: hook mismatch: the instrumentation site %q in /repo was never reached in %d runs (a hooked line was removed or moved)\n", st, len(results))
				return 2
			}
		}
	}
	if exit == 0 && tier == "thorough" {
		totals := cov["probes_hit"].(map[string]int)
		for _, p := range desc.RequiredProbes {
			if totals[p] == 0 {
				fmt.Printf("HARNESS-ERROR: probe %q was never hit in a thorough run: the workload no longer reaches what it claims\n", p)
				return 2
			}
		}
	}
	return exit
}

// ---- auxiliary race-detector mode (C13) --------------------------------------

type raceReport struct {
	Key  string
	Text string
	Seed int64
	Run  int
	Repo bool
}

func topRepoFunc(stack string) (string, bool) {
	for _, l := range strings.Split(stack, "\n") {
		l = strings.TrimSpace(l)
		if strings.Contains(l, "gca-backend/") && !strings.HasPrefix(l, "/") && !strings.Contains(l, "Verif") {
			if k := strings.LastIndex(l, "/"); k >= 0 {
				l = l[k+1:]
			}
			if k := strings.LastIndex(l, "("); k > 0 {
				l = l[:k]
			}
			return l, true
		}
		if strings.HasPrefix(l, "verif/sim.") {
			return "", false // the harness itself is on top
		}
	}
	return "", false
}

func parseRaces(out string, seed int64, run int) []raceReport {
	var reps []raceReport
	for _, l := range strings.Split(out, "\n") {
		if strings.HasPrefix(l, "RACE-MODE-VIOLATION ") {
			f := strings.SplitN(strings.TrimPrefix(l, "RACE-MODE-VIOLATION "), " ", 2)
			detail := ""
			if len(f) > 1 {
				detail = f[1]
			}
			reps = append(reps, raceReport{Key: f[0], Text: detail, Seed: seed, Run: run, Repo: true})
		}
	}
	for _, blk := range strings.Split(out, "==================") {
		if !strings.Contains(blk, "WARNING: DATA RACE") {
			continue
		}
		parts := strings.SplitN(blk, "\nPrevious ", 2)
		if len(parts) < 2 {
			continue
		}
		second := parts[1]
		if k := strings.Index(second, "\nGoroutine "); k >= 0 {
			second = second[:k]
		}
		a, okA := topRepoFunc(parts[0])
		b, okB := topRepoFunc(second)
		r := raceReport{Text: blk, Seed: seed, Run: run, Repo: okA && okB}
		if a > b {
			a, b = b, a
		}
		r.Key = "C13.race@" + a + "|" + b
		reps = append(reps, r)
	}
	return reps
}

var raceFocus string

func runRace(bin string, seed int64, from, runs int, outDir string, timeout time.Duration) (string, int) {
	cmd := exec.Command(bin, "-test.run", "^TestRace$", "-test.timeout", "0")
	cmd.Env = append(os.Environ(), "VERIF_RACE_FOCUS="+raceFocus, "VERIF_SEED="+strconv.FormatInt(seed, 10), "VERIF_RUN_FROM="+strconv.Itoa(from), "VERIF_RACE_RUNS="+strconv.Itoa(runs),
		"VERIF_SCRATCH="+filepath.Join(outDir, "scratch"), "GORACE=halt_on_error=0")
	var buf bytes.Buffer
	cmd.Stdout = &buf
	cmd.Stderr = &buf
	done := make(chan error, 1)
	if err := cmd.Start(); err != nil {
		return err.Error(), 99
	}
	go func() { done <- cmd.Wait() }()
	select {
	case err := <-done:
		code := 0
		if ee, ok := err.(*exec.ExitError); ok {
			code = ee.ExitCode()
		}
		return buf.String(), code
	case <-time.After(timeout):
		cmd.Process.Kill()
		<-done
		return buf.String(), 98
	}
}

// racePhase runs the free-running workloads under the race detector. It
// returns the distinct reports in repository code, the number of workloads
// run, and harness trouble (a race inside the harness itself).
func racePhase(seed int64, budget time.Duration, workers int, outDir string) (reps []raceReport, workloads int, trouble string) {
	bin, err := build("T", true)
	if err != nil {
		return nil, 0, err.Error()
	}
	deadline := time.Now().Add(budget)
	var mu sync.Mutex
	seen := map[string]bool{}
	var wg sync.WaitGroup
	per := 4
	for wi := 0; wi < workers; wi++ {
		wg.Add(1)
		go func(wi int) {
			defer wg.Done()
			for round := 0; time.Now().Before(deadline); round++ {
				from := (round*workers + wi) * per
				out, code := runRace(bin, seed, from, per, outDir, 2*time.Minute)
				done := strings.Count(out, "RACE-RUN-DONE")
				mu.Lock()
				workloads += done
				rs := parseRaces(out, seed, from+done)
				for _, r := range rs {
					if !r.Repo {
						if trouble == "" {
							trouble = "data race with harness code on top of a stack:\n" + lastN(r.Text, 3000)
						}
						continue
					}
					if !seen[r.Key] {
						seen[r.Key] = true
						reps = append(reps, r)
					}
				}
				if code == 3 && len(rs) > 0 {
					code = 0 // the run reported its own violation line (watchdog)
				}
				if code != 0 && len(rs) == 0 && trouble == "" {
					if site, ok := panicSite(out); ok && !lifetimePanic(out) {
						k := raceFocus + ".race-mode-panic@" + site
						if !seen[k] {
							seen[k] = true
							reps = append(reps, raceReport{Key: k, Text: lastN(out, 4000), Seed: seed, Run: from + done, Repo: true})
						}
					} else {
						trouble = fmt.Sprintf("race-mode worker exit %d:\n%s", code, lastN(out, 3000))
					}
				}
				mu.Unlock()
			}
		}(wi)
	}
	wg.Wait()
	sort.Slice(reps, func(i, j int) bool { return reps[i].Key < reps[j].Key })
	return
}

// raceReplay re-runs the workload of a recorded race up to n times and reports
// whether the same pair of access sites shows up again.
func raceReplay(key string, seed int64, run int, outDir string, n int) bool {
	bin, err := build("T", true)
	if err != nil {
		return false
	}
	for i := 0; i < n; i++ {
		out, _ := runRace(bin, seed, run, 1, outDir, 5*time.Minute)
		for _, r := range parseRaces(out, seed, run) {
			if r.Key == key {
				return true
			}
		}
		if strings.Contains(key, ".race-mode-panic@") {
			if site, ok := panicSite(out); ok && strings.HasSuffix(key, ".race-mode-panic@"+site) {
				return true
			}
		}
	}
	return false
}

func singleRunSeeded(bin, prop string, rec *ViolationRecord, outDir, name string) (*ViolationRecord, int, string) {
	stream := filepath.Join(outDir, "stream-"+name)
	os.Remove(stream)
	env := []string{"VERIF_PROP=" + prop, "VERIF_SEED=" + strconv.FormatInt(rec.Seed, 10),
		"VERIF_RUN_FROM=" + strconv.Itoa(rec.Run), "VERIF_RUN_TO=" + strconv.Itoa(rec.Run+1),
		"VERIF_TIER=" + rec.Tier, "VERIF_TAPE_STREAM=" + stream}
	o := runWorker(bin, env, outDir, name, 10*time.Minute)
	defer os.Remove(stream)
	if o.exit == 3 && o.viol != nil {
		return o.viol, 3, ""
	}
	if o.exit == 0 || o.exit == 4 || o.exit >= 90 {
		return nil, o.exit, o.stderr
	}
	site, ok := panicSite(o.stderr)
	if !ok || lifetimePanic(o.stderr) {
		return nil, 96, o.stderr
	}
	v := *rec
	v.Rule = prop + ".panic"
	v.Site = site
	v.Detail = "process died: " + panicMessage(o.stderr)
	if sb, err := os.ReadFile(stream); err == nil {
		for _, f := range strings.Fields(string(sb)) {
			n, _ := strconv.Atoi(f)
			v.Tape = append(v.Tape, n)
		}
	}
	v.Trace = tailLines(o.stderr, 40)
	return &v, 3, ""
}

func lastN(s string, n int) string {
	if len(s) > n {
		return "..." + s[len(s)-n:]
	}
	return s
}

func firstLine(s string) string {
	if i := strings.Index(s, "\n"); i >= 0 {
		return s[:i]
	}
	return s
}

func buildEvidence(prop, tier string, seed int64, d *Describe, results []RunResult, nviol int, reported []map[string]interface{}, exploreWall, wall time.Duration, workers int) map[string]interface{} {
	sigs := map[string]bool{}
	allSigs := map[string]bool{}
	states := map[string]bool{}
	faults := map[string]int{}
	probes := map[string]int{}
	sites := map[string]int{}
	var simSeconds float64
	var draws, preempts int64
	var samples []interface{}
	for _, r := range results {
		allSigs[r.Sig] = true
		if r.Nontriv {
			sigs[r.Sig] = true
		}
		for _, s := range r.States {
			states[s] = true
		}
		for k, v := range r.Faults {
			faults[k] += v
		}
		for k, v := range r.Probes {
			probes[k] += v
		}
		for k, v := range r.Sites {
			sites[k] += v
		}
		simSeconds += float64(r.SimNs) / 1e9
		draws += int64(r.Draws)
		preempts += int64(r.Preempts)
		if len(r.Sample) > 0 && len(samples) < 3 {
			samples = append(samples, map[string]interface{}{"run": r.Run, "decisions": r.Draws, "signature": r.Sig, "trace_tail": r.Sample})
		}
	}
	if len(samples) == 0 {
		samples = append(samples, map[string]interface{}{"note": "no completed run"})
	}
	evals := len(results) + nviol
	perHour := 0.0
	if exploreWall > 0 {
		perHour = float64(evals) / exploreWall.Hours()
	}
	level := d.Level
	if level == "" {
		level = "exploration"
	}
	notInj := d.NotInjected
	if notInj == nil {
		notInj = []string{"torn or lost writes after power loss", "fsync ordering", "disk full / short writes / EIO", "wall clock moving backwards (not expressible in a synctest bubble)"}
	}
	cov := map[string]interface{}{
		"evaluations":         evals,
		"distinct_nontrivial": len(sigs),
		"distinct_signatures": len(allSigs),
		"rule":                d.Rule,
		"samples":             samples,
		"distinct_states":     len(states),
		"states_measure":      "hash of the canonical model/snapshot state noted by the property at its check points",
		"simulated_time":      fmt.Sprintf("%.0fs", simSeconds),
		"simulated_seconds":   simSeconds,
		"runs_per_hour":       int64(perHour),
		"seeds":               []int64{seed},
		"seeds_per_hour":      "one VERIF_SEED per invocation; every run index of it is an independent PRNG stream (runs_per_hour)",
		"worker_processes":    workers,
		"decisions_drawn":     draws,
		"preemptions":         preempts,
		"faults_fired":        faults,
		"faults_not_injected": notInj,
		"probes_hit":          probes,
		"hook_sites_reached":  sites,
		"components_real":     d.Real,
		"components_stub":     d.Stub,
		"violations_reported": reported,
		"flavour":             d.Flavour,
		"exhaustive":          false,
		"technique":           "deterministic simulation with fault injection (seeded search over schedules and fault sequences)",
	}
	assumptions := append([]string{"go-ethereum secp256k1, Go 1.26.8 testing/synctest and the harness reference models are trusted", "a clean batch is evidence, not proof: the space of histories, schedules and faults is sampled"}, d.Assumptions...)
	if prop == "C02" {
		blocks := 0
		for k := range probes {
			if strings.HasPrefix(k, "c02.block.") {
				blocks++
			}
		}
		cov["exhaustive_subspace"] = fmt.Sprintf("all report sequences up to length 4 over 2 devices x 2 slots x 3 values (22620 sequences in 76 blocks of 300): %d of 76 blocks completed in this run", blocks)
	}
	if n, ok := probes["c05.forks"]; ok {
		cov["crash_points"] = n
		cov["crash_points_recovered"] = probes["c05.recovered"]
	}
	return map[string]interface{}{
		"property_id": prop,
		"tier":        tier,
		"seed":        seed,
		"level":       level,
		"coverage":    cov,
		"assumptions": assumptions,
		"wall_s":      wall.Seconds(),
		"violations":  nviol,
	}
}

// selftestDeterminism runs the same seeds in separate processes at GOMAXPROCS
// 1, 4 and 16 and requires byte-identical decision/observation logs.
func selftestDeterminism(props []string, seed int64) int {
	if len(props) == 0 {
		props = []string{"C01", "C02", "C03", "C04", "C05", "C06", "C07", "C08", "C09", "C10", "C11", "C12", "C13", "C14", "C17", "C18", "C19", "C20"}
	}
	outDir, _ := os.MkdirTemp("/dev/shm", "verif-det-")
	defer os.RemoveAll(outDir)
	bad := 0
	runs := 30
	if v := os.Getenv("VERIF_DET_RUNS"); v != "" {
		runs, _ = strconv.Atoi(v)
	}
	for _, prop := range props {
		bin, err := build(flavourOf(prop), false)
		if err != nil {
			fmt.Println("HARNESS-ERROR:", err)
			return 2
		}
		if _, err := describe(bin, prop); err != nil {
			fmt.Printf("%s: not registered, skipped\n", prop)
			continue
		}
		var logs [][]byte
		var wg sync.WaitGroup
		procs := []int{1, 4, 16, 1, 16}
		logs = make([][]byte, len(procs))
		for i, gp := range procs {
			wg.Add(1)
			go func(i, gp int) {
				defer wg.Done()
				lf := filepath.Join(outDir, fmt.Sprintf("%s-log-%d", prop, i))
				os.Remove(lf)
				sub := filepath.Join(outDir, fmt.Sprintf("%s-%d", prop, i))
				os.MkdirAll(sub, 0755)
				cmd := exec.Command(bin, "-test.run", "^TestWorker$", "-test.cpu", strconv.Itoa(gp), "-test.timeout", "0")
				cmd.Env = append(os.Environ(), "VERIF_PROP="+prop, "VERIF_SEED="+strconv.FormatInt(seed, 10), "VERIF_RUN_FROM=0",
					"VERIF_RUN_TO="+strconv.Itoa(runs), "VERIF_TIER=quick", "VERIF_OUT="+sub, "VERIF_WORKER=d", "VERIF_DUMP_LOG="+lf,
					"GOMAXPROCS="+strconv.Itoa(gp))
				out, err := cmd.CombinedOutput()
				if err != nil {
					fmt.Printf("%s: determinism worker %d (GOMAXPROCS %d) failed: %v\n%s\n", prop, i, gp, err, lastN(string(out), 2000))
				}
				logs[i], _ = os.ReadFile(lf)
			}(i, gp)
		}
		wg.Wait()
		ok := len(logs[0]) > 0
		for i := 1; i < len(logs); i++ {
			if !bytes.Equal(logs[0], logs[i]) {
				ok = false
				fmt.Printf("%s: log of process %d (GOMAXPROCS %d) differs from process 0: %s\n", prop, i, procs[i], firstDiff(logs[0], logs[i]))
			}
		}
		if ok {
			fmt.Printf("%s: %d runs x %d processes (GOMAXPROCS 1/4/16): logs byte-identical (%d bytes)\n", prop, runs, len(procs), len(logs[0]))
		} else {
			bad++
		}
	}
	if bad > 0 {
		return 2
	}
	return 0
}

func firstDiff(a, b []byte) string {
	la := strings.Split(string(a), "\n")
	lb := strings.Split(string(b), "\n")
	for i := 0; i < len(la) && i < len(lb); i++ {
		if la[i] != lb[i] {
			return fmt.Sprintf("line %d: %q vs %q", i+1, la[i], lb[i])
		}
	}
	return fmt.Sprintf("lengths %d vs %d lines", len(la), len(lb))
}
