package main

// autoyield.go - "A" build variant: a scratch copy of the repository in which a
// yield point is inserted in front of every mutex acquisition of the server
// package. The hooks committed in the repository mark the gaps between critical
// sections that exist in the pinned code; a change that splits a critical
// section (check, unlock, ..., lock, act) creates a gap without a hook. In the
// rewritten copy every `x.mu.Lock()` statement is preceded by
// `glow.VerifYield(x, "auto.lock:<file>:<line>")`, so the seeded scheduler can
// park an operation in front of any critical section, old or new, and run
// another operation there. The copy lives in the build directory and is
// rebuilt from the tree under test on every check.

import (
	"fmt"
	"go/ast"
	"go/format"
	"go/parser"
	"go/token"
	"io"
	"os"
	"path/filepath"
	"sort"
	"strconv"
	"strings"
)

const glowImport = "github.com/glowlabs-org/gca-backend/glow"

// autoYieldCopy copies the repository at src to dst (without .git) and rewrites
// the server package. It returns the number of inserted yield points.
func autoYieldCopy(src, dst string) (int, error) {
	os.RemoveAll(dst)
	err := filepath.Walk(src, func(p string, fi os.FileInfo, err error) error {
		if err != nil {
			return err
		}
		rel, _ := filepath.Rel(src, p)
		if fi.IsDir() {
			if fi.Name() == ".git" {
				return filepath.SkipDir
			}
			return os.MkdirAll(filepath.Join(dst, rel), 0755)
		}
		if !fi.Mode().IsRegular() {
			return nil
		}
		in, err := os.Open(p)
		if err != nil {
			return err
		}
		defer in.Close()
		out, err := os.Create(filepath.Join(dst, rel))
		if err != nil {
			return err
		}
		defer out.Close()
		_, err = io.Copy(out, in)
		return err
	})
	if err != nil {
		return 0, err
	}
	total := 0
	files, _ := filepath.Glob(filepath.Join(dst, "server", "*.go"))
	for _, f := range files {
		base := filepath.Base(f)
		if strings.HasSuffix(base, "_test.go") || strings.HasPrefix(base, "verif_") {
			continue
		}
		n, err := autoYieldFile(f)
		if err != nil {
			return total, fmt.Errorf("%s: %v", base, err)
		}
		total += n
	}
	return total, nil
}

// lockReceiver returns the root identifier of `root.a.b.Lock()`.
func lockReceiver(s ast.Stmt) (root string, ok bool) {
	es, isExpr := s.(*ast.ExprStmt)
	if !isExpr {
		return "", false
	}
	call, isCall := es.X.(*ast.CallExpr)
	if !isCall || len(call.Args) != 0 {
		return "", false
	}
	sel, isSel := call.Fun.(*ast.SelectorExpr)
	if !isSel || (sel.Sel.Name != "Lock" && sel.Sel.Name != "RLock") {
		return "", false
	}
	x := sel.X
	for {
		switch v := x.(type) {
		case *ast.SelectorExpr:
			x = v.X
		case *ast.Ident:
			// Only mutexes that hang off an object (gcas.mu, s.gcaServers.mu).
			if x == sel.X {
				return "", false
			}
			return v.Name, true
		default:
			return "", false
		}
	}
}

func isVerifYield(s ast.Stmt) bool {
	es, ok := s.(*ast.ExprStmt)
	if !ok {
		return false
	}
	call, ok := es.X.(*ast.CallExpr)
	if !ok {
		return false
	}
	sel, ok := call.Fun.(*ast.SelectorExpr)
	if !ok {
		return false
	}
	id, ok := sel.X.(*ast.Ident)
	return ok && id.Name == "glow" && sel.Sel.Name == "VerifYield"
}

func autoYieldFile(path string) (int, error) {
	src, err := os.ReadFile(path)
	if err != nil {
		return 0, err
	}
	fset := token.NewFileSet()
	file, err := parser.ParseFile(fset, path, src, parser.ParseComments)
	if err != nil {
		return 0, err
	}
	base := strings.TrimSuffix(filepath.Base(path), ".go")
	// The insertions are made in the source text (one line in front of the
	// lock statement, same indentation), so that comments stay where they are.
	type ins struct {
		off  int
		text string
	}
	var all []ins
	scan := func(list []ast.Stmt) {
		for i, s := range list {
			root, ok := lockReceiver(s)
			if !ok || (i > 0 && isVerifYield(list[i-1])) {
				continue
			}
			pos := fset.Position(s.Pos())
			lineStart := pos.Offset - (pos.Column - 1)
			indent := string(src[lineStart:pos.Offset])
			if strings.TrimSpace(indent) != "" {
				continue // not the first statement on its line
			}
			all = append(all, ins{off: lineStart, text: fmt.Sprintf("%sglow.VerifYield(%s, %q)\n", indent, root, fmt.Sprintf("auto.lock:%s:%d", base, pos.Line))})
		}
	}
	ast.Inspect(file, func(n ast.Node) bool {
		switch v := n.(type) {
		case *ast.BlockStmt:
			scan(v.List)
		case *ast.CaseClause:
			scan(v.Body)
		case *ast.CommClause:
			scan(v.Body)
		}
		return true
	})
	if len(all) == 0 {
		return 0, nil
	}
	hasGlow := false
	for _, im := range file.Imports {
		if im.Path.Value == strconv.Quote(glowImport) && im.Name == nil {
			hasGlow = true
		}
	}
	if !hasGlow {
		// A separate import declaration right after the package clause.
		end := fset.Position(file.Name.End()).Offset
		all = append(all, ins{off: end, text: "\n\nimport " + strconv.Quote(glowImport)})
	}
	sort.Slice(all, func(i, j int) bool { return all[i].off > all[j].off })
	out := src
	for _, in := range all {
		out = append(out[:in.off:in.off], append([]byte(in.text), out[in.off:]...)...)
	}
	if _, err := format.Source(out); err != nil {
		return 0, fmt.Errorf("rewritten file does not parse: %v", err)
	}
	n := len(all)
	if !hasGlow {
		n--
	}
	return n, os.WriteFile(path, out, 0644)
}
