//go:build test

package sim

// C19 - the rate limiter never admits more than the limit per window and
// never starves. 1-64 caller tasks in a bubble over a grid of (limit, window)
// configurations; arrival patterns: tight loops at one instant, bursts, paced
// just below / above the window, exact multiples of the window (ties). Every
// caller parks after waking up, so the order of calls that arrive at the same
// simulated instant is a seeded decision; each call is stamped with the
// simulated time, which is exact. Only certain violations count.

import (
	"fmt"
	"sort"
	"time"

	"github.com/glowlabs-org/gca-backend/glow"
)

func init() {
	Register(&Property{
		ID:             "C19",
		Run:            runC19,
		Rule:           "runs = one (limit 1-10, window 1ms-1h) configuration x 1-64 caller tasks x 50-2000 calls with arrival patterns tight loop / burst / paced just below or above the window / exact multiples of the window; same-instant arrivals are released in a seeded order; over-admission = limit+1 admitted calls spanning strictly less than the window, starvation = a rejected call with fewer than limit admissions in the closed preceding window; non-trivial = at least one rejection and one admission at an exact window boundary; distinct = distinct decision signatures",
		Real:           []string{"glow.RateLimiter.Allow under the simulated clock, real mutex"},
		Stub:           []string{"system clock (bubble clock)", "OS scheduler (callers park after waking, seeded release order); really overlapping callers: auxiliary free-running phase (1-128 goroutines released together on a fresh limiter, exactly min(calls, limit) admissions expected, built with -race)"},
		RequiredProbes: []string{"c19.rejected", "c19.boundary-tie", "c19.same-instant"},
	})
}

type c19Call struct {
	at       time.Duration
	admitted bool
	seq      int
}

func runC19(m *Sim) {
	limit := 1 + m.C.Int("limit", 10)
	window := []time.Duration{time.Millisecond, 24 * time.Millisecond, 60 * time.Millisecond, 3 * time.Second, time.Hour}[m.C.Int("window", 5)]
	lim := glow.NewRateLimiter(limit, window)
	// Callers legitimately sleep for many windows (up to hours of simulated time).
	defer func(old time.Duration) { MaxTaskWait = old }(MaxTaskWait)
	MaxTaskWait = 1 << 62
	callers := 1 + m.C.Int("callers", 64)
	total := 50 + m.C.Int("calls", 400)
	if m.Tier == "thorough" {
		total += m.C.Int("calls-more", 1600)
	}
	per := total/callers + 1
	var calls []c19Call
	seq := 0
	var tasks []*Task
	for c := 0; c < callers; c++ {
		pattern := m.C.Int("pattern", 5)
		// The delays of one caller are drawn up front (draws happen on the
		// driver, never on a task).
		delays := make([]time.Duration, per)
		for i := range delays {
			switch pattern {
			case 0: // tight loop at one instant
				delays[i] = 0
			case 1: // bursts
				if m.C.Chance("gap", 1, 5) {
					delays[i] = window * time.Duration(1+m.C.Int("gaps", 3))
				}
			case 2: // paced just below / above the window share
				delays[i] = window/time.Duration(limit) + time.Duration(m.C.Int("jit", 3)-1)*time.Nanosecond
			case 3: // exact multiples of the window (ties)
				delays[i] = window * time.Duration(m.C.Int("mult", 3))
			case 4: // random
				delays[i] = time.Duration(m.C.Int("frac", 2001)) * window / 1000
			}
		}
		c := c
		t := m.Go(fmt.Sprintf("caller%02d", c), func() {
			for _, d := range delays {
				if d > 0 {
					time.Sleep(d)
				}
				m.S.parkSelf("caller", "caller.wake")
				ok := lim.Allow()
				calls = append(calls, c19Call{at: time.Since(m.Start), admitted: ok, seq: seq})
				seq++
			}
		})
		tasks = append(tasks, t)
	}
	for _, t := range tasks {
		m.Finish(t)
		if t.Panic != nil {
			m.Fail("C19.panic", "allow", "Allow panicked: %v\n%s", t.Panic, firstRepoFrames(t.Stack))
		}
	}
	// The calls are in execution order (one critical section each).
	var adm []time.Duration
	sameInstant := false
	for i, c := range calls {
		if i > 0 && calls[i-1].at == c.at {
			sameInstant = true
		}
		if c.admitted {
			adm = append(adm, c.at)
		}
	}
	if sameInstant {
		m.Probe("c19.same-instant")
	}
	sorted := sort.SliceIsSorted(adm, func(i, j int) bool { return adm[i] < adm[j] })
	if !sorted {
		panic("harness: admission times not monotone")
	}
	for i := 0; i+limit < len(adm); i++ {
		if span := adm[i+limit] - adm[i]; span < window {
			m.Fail("C19.over", "window", "%d calls were admitted within %v, the limit is %d per %v", limit+1, span, limit, window)
		} else if span == window {
			m.Probe("c19.boundary-tie")
		}
	}
	rejected := 0
	for _, c := range calls {
		if c.admitted {
			continue
		}
		rejected++
		m.Probe("c19.rejected")
		// Admissions in the closed interval [t-window, t] before this call.
		n := 0
		for _, a := range adm {
			if a >= c.at-window && a <= c.at {
				n++
			}
		}
		// Admissions at the same instant that happened after this call do not
		// count against it: count only those executed before.
		n = 0
		for _, o := range calls {
			if o.seq < c.seq && o.admitted && o.at >= c.at-window && o.at <= c.at {
				n++
			}
		}
		if n < limit {
			m.Fail("C19.starve", "reject", "a call at %v was rejected although only %d calls were admitted in the preceding %v (limit %d)", c.at, n, window, limit)
		}
	}
	m.Sig = append(m.Sig, fmt.Sprintf("l%d/w%v/c%d/a%d/r%d", limit, window, callers, len(adm), rejected))
	if rejected > 0 && m.Probes["c19.boundary-tie"] > 0 {
		m.Probe("nontrivial")
	}
	m.NoteState(limit, window, len(adm), rejected)
}
