package sim

// simconn.go: the simulated TCP connection. Like a kernel socket pair, writes
// are buffered and never block, reads block until data, close or deadline;
// after Close the peer drains what was buffered and then sees EOF, writes to a
// closed peer fail. Deadlines read the simulated clock. All blocking is on
// channels and timers created inside the bubble, i.e. durable for synctest.

import (
	"io"
	"net"
	"os"
	"sync"
	"time"
)

type halfPipe struct {
	mu     sync.Mutex
	buf    []byte
	closed bool          // writer closed: EOF after the buffer is drained
	broken bool          // reader closed: writes fail
	wake   chan struct{} // signalled on data / close / deadline change
}

func newHalf() *halfPipe { return &halfPipe{wake: make(chan struct{}, 1)} }

func (h *halfPipe) signal() {
	select {
	case h.wake <- struct{}{}:
	default:
	}
}

type simConn struct {
	rd, wr   *halfPipe
	mu       sync.Mutex
	deadline time.Time
	closed   bool
	name     string
}

type simAddr string

func (a simAddr) Network() string { return "sim" }
func (a simAddr) String() string  { return string(a) }

// SimPipe returns the two ends of a simulated TCP connection.
func SimPipe() (net.Conn, net.Conn) {
	a, b := newHalf(), newHalf()
	return &simConn{rd: a, wr: b, name: "client"}, &simConn{rd: b, wr: a, name: "server"}
}

func (c *simConn) Read(p []byte) (int, error) {
	for {
		c.mu.Lock()
		closed, dl := c.closed, c.deadline
		c.mu.Unlock()
		if closed {
			return 0, io.ErrClosedPipe
		}
		c.rd.mu.Lock()
		if len(c.rd.buf) > 0 {
			n := copy(p, c.rd.buf)
			c.rd.buf = c.rd.buf[n:]
			c.rd.mu.Unlock()
			return n, nil
		}
		if c.rd.closed {
			c.rd.mu.Unlock()
			return 0, io.EOF
		}
		c.rd.mu.Unlock()
		if len(p) == 0 {
			return 0, nil
		}
		if dl.IsZero() {
			<-c.rd.wake
			continue
		}
		d := time.Until(dl)
		if d <= 0 {
			return 0, os.ErrDeadlineExceeded
		}
		t := time.NewTimer(d)
		select {
		case <-c.rd.wake:
			t.Stop()
		case <-t.C:
		}
	}
}

func (c *simConn) Write(p []byte) (int, error) {
	c.mu.Lock()
	closed := c.closed
	c.mu.Unlock()
	if closed {
		return 0, io.ErrClosedPipe
	}
	c.wr.mu.Lock()
	if c.wr.broken {
		c.wr.mu.Unlock()
		return 0, &netError{msg: "write: broken pipe"}
	}
	c.wr.buf = append(c.wr.buf, p...)
	c.wr.mu.Unlock()
	c.wr.signal()
	return len(p), nil
}

func (c *simConn) Close() error {
	c.mu.Lock()
	if c.closed {
		c.mu.Unlock()
		return nil
	}
	c.closed = true
	c.mu.Unlock()
	c.wr.mu.Lock()
	c.wr.closed = true
	c.wr.mu.Unlock()
	c.wr.signal()
	c.rd.mu.Lock()
	c.rd.broken = true
	c.rd.mu.Unlock()
	c.rd.signal()
	return nil
}

func (c *simConn) LocalAddr() net.Addr  { return simAddr(c.name) }
func (c *simConn) RemoteAddr() net.Addr { return simAddr("peer-of-" + c.name) }

func (c *simConn) SetDeadline(t time.Time) error {
	c.mu.Lock()
	c.deadline = t
	c.mu.Unlock()
	c.rd.signal()
	return nil
}
func (c *simConn) SetReadDeadline(t time.Time) error  { return c.SetDeadline(t) }
func (c *simConn) SetWriteDeadline(t time.Time) error { return nil }
