//go:build test

package sim

// C10 - sync replies parse to the server's data and are accepted only when
// authentic. Genuine path: the real client parser talks through the fabric to
// the real sync handler, the fabric records the bytes, an independent decoder
// of the documented layout is compared with the server snapshot and with what
// the client parser returned. Tampering: the fabric as man in the middle and a
// rogue signer holding other keys.

import (
	"bytes"
	"encoding/binary"
	"fmt"
	"net"
	"os"
	"path/filepath"
	"reflect"
	"strings"
	"time"

	"github.com/glowlabs-org/gca-backend/client"
	"github.com/glowlabs-org/gca-backend/glow"
	"github.com/glowlabs-org/gca-backend/server"
)

func init() {
	Register(&Property{
		ID:             "C10",
		Run:            runC10,
		Rule:           "runs = one server state (report sets at window edges incl. banned slots, 0-6 authorized servers with location lengths 0-255 and ban flags, with/without a migration order with 0-4 new servers, after 0-2 rotations) x one genuine sync (independent decoder == server snapshot == client parser) x 40 (quick) / all-bit (thorough) tamperings: single-bit flips (all of prefix, timestamp, signature; sampled elsewhere), truncation at field boundaries, extension, rewritten length prefix, re-signing under every other key, timestamp shifts to +-86400/+-86401 s, reply bound to another device, server entries / migration orders with missing or foreign GCA signatures; every tampered reply must be rejected with client state and files unchanged; non-trivial = at least 5 tampering kinds were applied to a reply carrying servers or a migration; distinct = distinct decision signatures",
		Real:           []string{"server sync handler (reply construction and signing)", "client staticServerSync (request, reply parser, freshness, signature, key binding, migration and per-server GCA signatures)"},
		Stub:           []string{"TCP (simulated connection; the fabric records and tampers)"},
		RequiredProbes: []string{"c10.genuine", "c10.genuine.ban-with-other-details", "c10.genuine.migration", "c10.genuine.servers", "c10.refusal", "c10.tamper.bitflip", "c10.tamper.resign", "c10.tamper.time-accept", "c10.tamper.time-reject", "c10.tamper.foreign-server-sig", "c10.tamper.bad-migration", "c10.tamper.other-device", "c10.tamper.prefix", "c10.tamper.dup-key", "c10.tamper.whole-round", "c10.second-sync.after-ban"},
	})
}

type recConn struct {
	net.Conn
	got *[]byte
}

func (c *recConn) Read(p []byte) (int, error) {
	n, err := c.Conn.Read(p)
	*c.got = append(*c.got, p[:n]...)
	return n, err
}

type c10State struct {
	state client.VerifClientState
	files map[string][]byte
}

func c10Take(cl *ClientNode) c10State {
	st := c10State{state: cl.C.VerifState(), files: map[string][]byte{}}
	// Which server is the primary one is decided by the selection step of a
	// round, not by the reply: not part of "the state a rejected reply leaves
	// unchanged".
	st.state.PrimaryServer = glow.PublicKey{}
	for _, f := range []string{client.GCAPubKeyFile, client.GCAServerMapFile, client.ShortIDFile, client.HistoryFile} {
		b, _ := os.ReadFile(filepath.Join(cl.Dir, f))
		st.files[f] = b
	}
	return st
}

func runC10(m *Sim) {
	w := NewWorld(m)
	defer w.Shutdown()
	w.SeedRandom()
	h := NewHist(w, "srv0", "C10")
	n := h.N
	gca := h.GCA
	SetSlot(uint32(500 + m.C.Int("now0", 2000)))
	h.Boot()
	h.Setup(2)
	dev, other := h.Devs[0], h.Devs[1]

	// ---- a server state ---------------------------------------------------------
	for r := m.C.Int("rotations", 3); r > 0; r-- {
		SetSlot(n.Model.Offset + 3201 + uint32(m.C.Int("late", 200)))
		h.OpTime(120 * time.Millisecond)
	}
	now := Slot()
	off := n.Model.Offset
	edges := []uint32{off, off + 7, off + 8, off + 4031, now, now - 1, now + 432, now - 432, off + 2015, off + 2016}
	for i := 0; i < 3+m.C.Int("reports", 12); i++ {
		slot := edges[m.C.Int("edge", len(edges))]
		d := []*Device{dev, dev, other}[m.C.Int("who", 3)]
		v := []uint64{500, 600, 5000}[m.C.Int("v", 3)] // 600 after 500 bans the slot, 5000 is over capacity
		n.DoDatagram(SignedReport(d.Key, d.ID, slot, v).Encode())
	}
	nsrv := m.C.Int("servers", 7)
	for i := 0; i < nsrv; i++ {
		loc := strings.Repeat("x", []int{0, 1, 9, 200, 255}[m.C.Int("loclen", 5)])
		as := SignServer(gca, server.AuthorizedServer{PublicKey: Key(fmt.Sprintf("as%d", i)).Pub, Banned: m.C.Chance("banned", 1, 4), Location: loc, HttpPort: uint16(m.C.Int("port", 65536)), TcpPort: 2, UdpPort: 3})
		n.DoAuthorizeServer(as)
	}
	// Later bans of listed servers: a ban names a key, the GCA may leave the
	// address out or write another one. What the server then lists (and sends)
	// is the ban record as signed.
	for i := 0; i < nsrv; i++ {
		if !m.C.Chance("later-ban", 1, 4) {
			continue
		}
		ban := server.AuthorizedServer{PublicKey: Key(fmt.Sprintf("as%d", i)).Pub, Banned: true}
		if m.C.Chance("ban-elsewhere", 1, 2) {
			ban.Location, ban.HttpPort, ban.TcpPort, ban.UdpPort = "elsewhere.sim", 9, 9, 9
		}
		n.DoAuthorizeServer(SignServer(gca, ban))
		m.Probe("c10.genuine.ban-with-other-details")
	}
	if nsrv > 0 {
		m.Probe("c10.genuine.servers")
	}
	newGCA := Key("gcaNew")
	if m.C.Chance("migration", 1, 3) {
		em := server.EquipmentMigration{Equipment: dev.Key.Pub, NewGCA: newGCA.Pub, NewShortID: uint32(m.C.Int("newid", 1000))}
		for i := m.C.Int("newservers", 5); i > 0; i-- {
			em.NewServers = append(em.NewServers, SignServer(newGCA, server.AuthorizedServer{PublicKey: Key(fmt.Sprintf("ns%d", i)).Pub, Location: strings.Repeat("n", m.C.Int("nl", 40)), HttpPort: 7}))
		}
		n.DoMigrate(SignMigration(gca, em))
		m.Probe("c10.genuine.migration")
	}
	h.AfterRotations()

	// ---- the client ----------------------------------------------------------------
	// The client also knows a second server that is never up: a rejected
	// reply leaves it something else to try (and nothing else to change).
	spare := w.AddServer("spare0", "temp", true)
	cl := w.AddClient("cli0", dev, gca.Pub, []*ServerNode{n, spare}, off)
	if err := cl.Start(); err != nil {
		m.Fail("C10.start", "client", "client does not start: %v", err)
	}
	// Rounds are driven by the harness only.
	w.S.Hold(cl.Name + ":send.wake")
	w.S.Hold(cl.Name + ":send.tick")
	gs := client.GCAServer{Location: n.Loc, HttpPort: n.HTTP, TcpPort: n.TCP, UdpPort: n.UDP}

	// ---- genuine exchange ---------------------------------------------------------
	var wire []byte
	w.DialPolicy = func(address string) DialAction {
		return DialAction{Wrap: func(c net.Conn) net.Conn { return &recConn{Conn: c, got: &wire} }}
	}
	type parsed struct {
		off     uint32
		bits    [504]byte
		newGCA  glow.PublicKey
		newID   uint32
		servers []server.AuthorizedServer
		err     error
	}
	call := func() parsed {
		var p parsed
		t := w.Do("client-sync", func() {
			p.off, p.bits, p.newGCA, p.newID, p.servers, p.err = cl.C.VerifServerSync(gs, n.Key.Pub, gca.Pub)
		})
		if t.Panic != nil {
			m.Fail("C10.panic", "client-parser", "the client's reply parser panicked: %v\n%s", t.Panic, firstRepoFrames(t.Stack))
		}
		return p
	}
	var before c10State
	var rep *SyncReply
	// genuineCheck performs one genuine exchange and compares the three views:
	// independent decoder == server snapshot == client parser.
	genuineCheck := func(site string) {
		wire = nil
		before = c10Take(cl)
		g := call()
		if g.err != nil {
			m.Fail("C10.parse", site, "the client rejects the genuine reply of its server: %v", g.err)
		}
		m.Probe("c10.genuine")
		snap := n.Snap()
		var err error
		rep, err = DecodeSyncReply(wire)
		if err != nil || rep.Refused {
			m.Fail("C10.decode", "layout", "the recorded reply does not follow the documented layout: %v", err)
		}
		if !VerifySig(n.Key.Pub, rep.Signed, rep.Sig) {
			m.Fail("C10.decode", "signature", "the reply's signature does not verify under the server key")
		}
		if rep.Key != dev.Key.Pub || rep.Offset != snap.Offset {
			m.Fail("C10.decode", "header", "reply carries key %s offset %d, server has %s offset %d", RoleOf(rep.Key), rep.Offset, RoleOf(dev.Key.Pub), snap.Offset)
		}
		have := map[uint32]bool{}
		for _, s := range snap.Reports[dev.ID] {
			have[s.Index] = true
		}
		for i := 0; i < 4032; i++ {
			if rep.Bits[i] != have[uint32(i)] {
				m.Fail("C10.decode", "bitfield", "bit %d is %v, the server holds a record for timeslot %d: %v", i, rep.Bits[i], snap.Offset+uint32(i), have[uint32(i)])
			}
			cbit := g.bits[i/8]&(1<<uint(i%8)) != 0
			if cbit != rep.Bits[i] {
				m.Fail("C10.parse", "bitfield", "the client parsed bit %d as %v, the reply carries %v", i, cbit, rep.Bits[i])
			}
		}
		mig, hasMig := snap.Migrations[dev.Key.Pub]
		if hasMig {
			if rep.NewGCA != mig.NewGCA || rep.NewShortID != mig.NewShortID || !reflect.DeepEqual(rep.Servers, mig.NewServers) && !(len(rep.Servers) == 0 && len(mig.NewServers) == 0) || rep.GCASig != mig.Signature {
				m.Fail("C10.decode", "migration", "reply does not carry the stored migration order")
			}
		} else {
			if rep.NewGCA != (glow.PublicKey{}) || !reflect.DeepEqual(rep.Servers, snap.Servers) && !(len(rep.Servers) == 0 && len(snap.Servers) == 0) {
				m.Fail("C10.decode", "servers", "reply carries %d servers, the server's list has %d (or they differ)", len(rep.Servers), len(snap.Servers))
			}
		}
		if g.off != rep.Offset || g.newGCA != rep.NewGCA || g.newID != rep.NewShortID || !reflect.DeepEqual(g.servers, rep.Servers) && !(len(g.servers) == 0 && len(rep.Servers) == 0) {
			m.Fail("C10.parse", "fields", "the client's parse (offset %d, new GCA %s, id %d, %d servers) differs from the reply (offset %d, new GCA %s, id %d, %d servers)", g.off, RoleOf(g.newGCA), g.newID, len(g.servers), rep.Offset, RoleOf(rep.NewGCA), rep.NewShortID, len(rep.Servers))
		}
		if rep.Time != uint64(time.Now().Unix()) {
			m.Fail("C10.decode", "time", "reply timestamp %d is not the server's clock %d", rep.Time, time.Now().Unix())
		}
		if after := c10Take(cl); !reflect.DeepEqual(before, after) {
			m.Fail("C10.state", "genuine-parse", "parsing a reply (without merging it) changed the client's state or files")
		}
	}
	genuineCheck("genuine")
	// The server's data changes - a listed server is banned (its entry is
	// replaced in place), a report arrives, a server is added - and the next
	// reply must be the new data, not what an earlier reply carried.
	for k, changes := 0, m.C.Int("changes-before-second-sync", 4); k < changes; k++ {
		switch m.C.Int("change", 3) {
		case 0:
			if list := n.Model.Servers; len(list) > 0 {
				e := list[m.C.Int("ban-which", len(list))]
				n.DoAuthorizeServer(SignServer(gca, server.AuthorizedServer{PublicKey: e.PublicKey, Banned: true, Location: e.Location, HttpPort: e.HttpPort, TcpPort: e.TcpPort, UdpPort: e.UdpPort}))
				m.Probe("c10.second-sync.after-ban")
			}
		case 1:
			n.DoDatagram(SignedReport(dev.Key, dev.ID, Slot()-uint32(m.C.Int("back", 5)), 777).Encode())
		case 2:
			n.DoAuthorizeServer(SignServer(gca, server.AuthorizedServer{PublicKey: Key(fmt.Sprintf("late-as%d", k)).Pub, Location: "late.sim", HttpPort: 9, TcpPort: 9, UdpPort: 9}))
		}
	}
	genuineCheck("genuine-after-change")
	// Unknown id: the one-byte refusal.
	var req [4]byte
	binary.LittleEndian.PutUint32(req[:], 4242)
	if reply, _, _ := n.SyncSession(req[:]); len(reply) != 1 || reply[0] != 0 {
		m.Fail("C10.decode", "refusal", "an unknown device id gets %d bytes instead of the one-byte refusal", len(reply))
	}
	m.Probe("c10.refusal")

	// ---- tampering ---------------------------------------------------------------------
	genuine := append([]byte{}, wire...)
	body := genuine[2 : len(genuine)-72]
	tnow := uint64(time.Now().Unix())
	kinds := map[string]bool{}
	wholeRounds := 0
	serve := func(b []byte) {
		w.DialPolicy = func(address string) DialAction {
			return DialAction{Serve: func(c net.Conn) {
				var rq [4]byte
				c.Read(rq[:])
				c.Write(b)
				c.Close()
			}}
		}
	}
	expectReject := func(kind, site string, b []byte) {
		kinds[kind] = true
		m.Probe("c10.tamper." + kind)
		m.Sig = append(m.Sig, "t:"+kind)
		serve(b)
		p := call()
		if p.err == nil {
			m.Fail("C10.accept", site, "a tampered reply (%s) was accepted by the client", site)
		}
		if after := c10Take(cl); !reflect.DeepEqual(before, after) {
			m.Fail("C10.state", site, "a rejected reply (%s) changed the client's state or files", site)
		}
		// (Not for the replies whose only flaw is a timestamp just outside the
		// 24 hours: a round takes simulated seconds, the flaw may heal.)
		// (A round takes simulated seconds and a node of the test build lives
		// 120 s: at most eight of them, none after a minute.)
		if kind != "time-reject" && wholeRounds < 8 && time.Since(m.Start) < 60*time.Second && m.C.Chance("whole-round", 1, 4) {
			wholeRounds++
			// The same reply inside a whole sync round (every dial is answered
			// with it): the round fails, and what the client knows - GCA, id,
			// server map, the four files - is what it knew before. Which server
			// is the primary one is a matter of the selection, not of the reply.
			var ok bool
			t := w.Do("sync-round", func() { ok, _ = cl.C.VerifSyncRound(Slot()) })
			if t.Panic != nil {
				m.Fail("C10.panic", "sync-round", "sync round panicked: %v\n%s", t.Panic, firstRepoFrames(t.Stack))
			}
			if ok {
				m.Fail("C10.accept", site, "a sync round fed with a tampered reply (%s) succeeded", site)
			}
			if after := c10Take(cl); !reflect.DeepEqual(before, after) {
				m.Fail("C10.state", site+"/round", "a sync round that rejected its reply (%s) changed the client's state or files", site)
			}
			m.Probe("c10.tamper.whole-round")
		}
	}
	expectAccept := func(kind, site string, b []byte) {
		m.Probe("c10.tamper." + kind)
		serve(b)
		if p := call(); p.err != nil {
			m.Fail("C10.parse", site, "an authentic reply (%s) was rejected: %v", site, p.err)
		}
	}
	nt := 40
	if m.Tier == "thorough" {
		nt = 120
	}
	allBits := m.Tier == "thorough" && m.C.Chance("all-bits", 1, 4)
	if allBits {
		for bit := 0; bit < len(genuine)*8; bit++ {
			b := append([]byte{}, genuine...)
			b[bit/8] ^= 1 << uint(bit%8)
			expectReject("bitflip", fmt.Sprintf("bit-flip@%s", c10Field(bit/8, len(genuine))), b)
		}
		m.Probe("c10.tamper.all-bits")
	}
	for i := 0; i < nt; i++ {
		// Whole rounds let simulated time pass: the reference instant of the
		// timestamp tamperings is the present one.
		tnow = uint64(time.Now().Unix())
		switch m.C.Weighted("tamper", 6, 2, 2, 3, 3, 2, 3, 3, 2, 2) {
		case 0: // single bit flip: prefix, timestamp and signature always in reach
			var bit int
			switch m.C.Int("region", 7) {
			case 0:
				bit = m.C.Int("bit", 16)
			case 1:
				bit = (len(genuine)-72)*8 + m.C.Int("bit", 64)
			case 2:
				bit = (len(genuine)-64)*8 + m.C.Int("bit", 512)
			case 3: // the last bytes before the GCA signature: the last server entry
				bit = (len(genuine)-136-1-m.C.Int("back", 110))*8 + m.C.Int("bit", 8)
			case 4: // the GCA signature
				bit = (len(genuine)-136)*8 + m.C.Int("bit", 512)
			case 5: // device key, offset, first and last bitfield bytes
				bit = []int{2, 33, 34, 37, 38, 541}[m.C.Int("which", 6)]*8 + m.C.Int("bit", 8)
			default:
				bit = m.C.Int("bit", len(genuine)*8)
			}
			if bit < 0 || bit >= len(genuine)*8 {
				bit = m.C.Int("bit", len(genuine)*8)
			}
			b := append([]byte{}, genuine...)
			b[bit/8] ^= 1 << uint(bit%8)
			expectReject("bitflip", "bit-flip@"+c10Field(bit/8, len(genuine)), b)
		case 1: // truncation at a field boundary or anywhere
			if len(genuine) >= 64 && m.C.Chance("malleated-signature", 1, 3) {
				// The other root (s -> N-s) of the server's signature over the
				// unchanged reply: a reply altered in many bits that anybody can
				// produce.
				b := append([]byte{}, genuine...)
				var sig [64]byte
				copy(sig[:], b[len(b)-64:])
				sig = MalleateSig(sig)
				copy(b[len(b)-64:], sig[:])
				expectReject("malleated-signature", "malleated-server-signature", b)
				continue
			}
			cuts := []int{0, 1, 2, 34, 38, 542, 574, 578, len(genuine) - 72, len(genuine) - 64, len(genuine) - 1}
			c := cuts[m.C.Int("cut", len(cuts))]
			if m.C.Chance("anywhere", 1, 3) {
				c = m.C.Int("at", len(genuine))
			}
			if c > len(genuine) {
				c = len(genuine) - 1
			}
			expectReject("truncate", "truncated", genuine[:c])
		case 2: // extension, with and without a matching prefix
			extra := make([]byte, 1+m.C.Int("extra", 200))
			b := append(append([]byte{}, genuine...), extra...)
			if m.C.Chance("fix-prefix", 1, 2) {
				binary.LittleEndian.PutUint16(b[:2], uint16(len(b)-2))
			} else {
				continue // trailing bytes after a complete reply are never read: not a tampering of the reply
			}
			expectReject("extend", "extended", b)
		case 3: // rewritten length prefix with a body of exactly that length
			l := []int{0, 1, 63, 64, 71, 72, 73, 135, 136, 137, 575, 576, 577, 700, 711, 712}[m.C.Int("plen", 16)]
			if l == len(genuine)-2 {
				continue
			}
			b := binary.LittleEndian.AppendUint16(nil, uint16(l))
			if l <= len(genuine)-2 {
				b = append(b, genuine[2:2+l]...)
			} else {
				b = append(b, genuine[2:]...)
				b = append(b, make([]byte, l-(len(genuine)-2))...)
			}
			expectReject("prefix", fmt.Sprintf("length-prefix=%d", l), b)
		case 4: // re-signed by another key, or a correctly signed reply that is too short
			if m.C.Chance("signed-short", 1, 4) {
				l := []int{0, 8, 72, 136, 500, 575, 576, 639}[m.C.Int("slen", 8)]
				expectReject("resign", fmt.Sprintf("correctly-signed-but-short(%d)", l), SealSyncReply(make([]byte, l), tnow, n.Key))
				continue
			}
			k := []*KeyPair{gca, dev.Key, other.Key, n.Temp, newGCA, Key("rogue")}[m.C.Int("signer", 6)]
			expectReject("resign", "re-signed-by-"+k.Role, SealSyncReply(body, tnow, k))
		case 5: // timestamp shifts, correctly signed by the server key
			switch m.C.Int("shift", 9) {
			case 4: // wrap-arounds and unit slips of the timestamp
				expectReject("time-reject", "time+2^32", SealSyncReply(body, tnow+1<<32, n.Key))
			case 5:
				expectReject("time-reject", "time-2^32", SealSyncReply(body, tnow-1<<32, n.Key))
			case 6:
				expectReject("time-reject", "time-in-milliseconds", SealSyncReply(body, tnow*1000, n.Key))
			case 7:
				expectReject("time-reject", "time-zero", SealSyncReply(body, 0, n.Key))
			case 8:
				expectReject("time-reject", "time+2^63", SealSyncReply(body, tnow+1<<63, n.Key))
			case 0:
				expectAccept("time-accept", "time+86400", SealSyncReply(body, tnow+86400, n.Key))
			case 1:
				expectAccept("time-accept", "time-86400", SealSyncReply(body, tnow-86400, n.Key))
			case 2:
				expectReject("time-reject", "time+86401", SealSyncReply(body, tnow+86401, n.Key))
			case 3:
				expectReject("time-reject", "time-86401", SealSyncReply(body, tnow-86401, n.Key))
			}
		case 6: // a correctly signed reply bound to another device's key
			b := append([]byte{}, body...)
			if m.C.Chance("near-key", 1, 2) {
				// a key that differs from the device's own in one byte only
				b[[]int{0, 15, 16, 31}[m.C.Int("key-byte", 4)]] ^= 0x40
			} else {
				copy(b[:32], other.Key.Pub[:])
			}
			expectReject("other-device", "other-device-key", SealSyncReply(b, tnow, n.Key))
		case 7: // server entries with a missing or foreign GCA signature (server-signed reply)
			as := server.AuthorizedServer{PublicKey: Key("evil").Pub, Location: "evil.sim", HttpPort: 1, TcpPort: 2, UdpPort: 3}
			// The forged entry may also repeat the key of a genuinely signed
			// entry of the same reply (before or after it): every entry needs
			// its own signature.
			genuine := append([]server.AuthorizedServer{}, rep.Servers...)
			if rep.NewGCA != (glow.PublicKey{}) || len(genuine) == 0 {
				genuine = []server.AuthorizedServer{SignServer(gca, server.AuthorizedServer{PublicKey: Key("as-genuine").Pub, Location: "genuine.sim", HttpPort: 4, TcpPort: 5, UdpPort: 6})}
			}
			site := "server-entry-without-gca-signature"
			dup := m.C.Chance("dup-key", 1, 2)
			if dup {
				as.PublicKey = genuine[m.C.Int("dup-of", len(genuine))].PublicKey
				as.Banned = m.C.Chance("forged-ban", 1, 2)
				site = "forged-entry-repeating-a-genuinely-signed-key"
				m.Probe("c10.tamper.dup-key")
			}
			switch m.C.Int("how", 3) {
			case 0:
				as = SignServer(Key("rogue"), as)
			case 1: // unsigned
			case 2:
				as = SignServer(n.Key, as)
			}
			list := append(append([]server.AuthorizedServer{}, genuine...), as)
			if m.C.Chance("forged-first", 1, 3) {
				list = append([]server.AuthorizedServer{as}, genuine...)
			}
			var none [4032]bool
			bb := EncodeSyncBody(dev.Key.Pub, rep.Offset, &none, glow.PublicKey{}, 0, list, [64]byte{})
			expectReject("foreign-server-sig", site, SealSyncReply(bb, tnow, n.Key))
		case 8: // migration orders with a bad outer or inner signature
			em := server.EquipmentMigration{Equipment: dev.Key.Pub, NewGCA: newGCA.Pub, NewShortID: 77,
				NewServers: []server.AuthorizedServer{SignServer(newGCA, server.AuthorizedServer{PublicKey: Key("ns").Pub, Location: "ns.sim", HttpPort: 1})}}
			site := ""
			switch m.C.Int("how", 5) {
			case 0: // outer signature by the wrong GCA
				em = SignMigration(Key("gcaB"), em)
				site = "migration-signed-by-foreign-gca"
			case 1: // outer signature by the new GCA itself
				em = SignMigration(newGCA, em)
				site = "migration-signed-by-new-gca"
			case 2: // inner server signed by the old GCA
				em.NewServers[0] = SignServer(gca, server.AuthorizedServer{PublicKey: Key("ns").Pub, Location: "ns.sim", HttpPort: 1})
				em = SignMigration(gca, em)
				site = "migration-inner-signed-by-old-gca"
			case 3: // order for another device's key, presented to this device
				em.Equipment = other.Key.Pub
				em = SignMigration(gca, em)
				site = "migration-for-other-device"
			case 4: // a correctly signed order relayed with an extra, forged new-server entry repeating a genuine key
				em = SignMigration(gca, em)
				forged := server.AuthorizedServer{PublicKey: em.NewServers[0].PublicKey, Banned: true, Location: "evil.sim", HttpPort: 1}
				em.NewServers = append(em.NewServers, forged)
				site = "migration-with-appended-forged-server"
			}
			var none [4032]bool
			bb := EncodeSyncBody(dev.Key.Pub, rep.Offset, &none, em.NewGCA, em.NewShortID, em.NewServers, em.Signature)
			expectReject("bad-migration", site, SealSyncReply(bb, tnow, n.Key))
		case 9: // random bytes
			b := make([]byte, m.C.Int("rlen", 900))
			for j := range b {
				b[j] = byte(m.C.Int("byte", 256))
			}
			if bytes.Equal(b, genuine) {
				continue
			}
			expectReject("random", "random-bytes", b)
		}
	}
	if len(kinds) >= 5 && (nsrv > 0 || rep.NewGCA != (glow.PublicKey{})) {
		m.Probe("nontrivial")
	}
}

// c10Field names the field a byte offset of the reply belongs to.
func c10Field(off, total int) string {
	switch {
	case off < 2:
		return "length-prefix"
	case off < 34:
		return "device-key"
	case off < 38:
		return "window-offset"
	case off < 542:
		return "bitfield"
	case off < 574:
		return "new-gca"
	case off < 578:
		return "new-short-id"
	case off >= total-64:
		return "server-signature"
	case off >= total-72:
		return "timestamp"
	case off >= total-136:
		return "gca-signature"
	default:
		return "server-entries"
	}
}
