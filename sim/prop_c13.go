//go:build test

package sim

// C13 - concurrent operation is deadlock-free, panic-free and equals a
// sequential run (deterministic part). Every place where an operation runs
// between two critical sections is a yield site; when a task or a background
// job parks there, the policy may run interfering operations from a menu
// (ban, authorize, report, rotate, register, statistics query with
// insert_false_negatives, server post, sync) before releasing it. The
// reference model is applied in the order in which the effect-carrying
// critical sections were entered, which is known exactly because exactly one
// goroutine runs between two decisions.
//
// The data-race clause is decided by the auxiliary free-running mode
// (race_mode.go, DESIGN.md 3.10).

import (
	"encoding/binary"
	"encoding/json"
	"fmt"
	"os"
	"strings"
	"time"

	"github.com/glowlabs-org/gca-backend/glow"
	"github.com/glowlabs-org/gca-backend/server"
)

var c13Sites = []string{"impact.listed", "impact.prelock", "srvauth.between", "srvauth.prenet", "sync.between",
	"stats.postlock", "auth.preforward", "order.prelock", "archive.file", "archive.pubkey", "migrate.checked", "migrate.prelock"}

func init() {
	Register(&Property{
		ID:             "C13",
		Run:            runC13,
		Rule:           "deterministic part: runs = 10-40 operations (reports, authorizations, conflicts, server posts, migration orders, statistics GETs, archives, sync sessions) with the rotation and impact loops running; every between-critical-sections site is a yield point; at each park the policy injects 0-2 interfering operations from the menu {ban, authorize, report, rotate, statistics GET with insert_false_negatives, server post, sync}; the model is applied in critical-section order; after every step all mutexes must be free; non-trivial = at least one interfering operation ran while another operation or job was parked between two critical sections; distinct = distinct decision signatures. Race part: see coverage.race_mode",
		Real:           []string{"all server handlers and background jobs, real mutexes", "thread group"},
		Stub:           []string{"OS scheduler (yield-point scheduler in the deterministic part; the Go scheduler itself in the race part)", "socket listeners"},
		Assumptions:    []string{"interleavings are explored at critical-section boundaries (yield sites listed in DESIGN.md appendix A); preemption inside a critical section is not a distinct behaviour under the single-mutex discipline", "data races are decided only by the non-deterministic auxiliary race-detector mode"},
		RequiredProbes: []string{"c13.interfere.impact.prelock", "c13.interfere.migrate.prelock", "c13.interfere.stats.postlock", "c13.interfere.sync.between", "c13.interfere.srvauth.between", "c13.interfere.auth.preforward", "c13.ban-in-gap", "c13.rotate-in-gap", "c13.stats-future-week"},
		RequiredSites:  []string{"impact.listed", "impact.prelock", "srvauth.between", "srvauth.prenet", "sync.between", "stats.postlock", "auth.preforward", "order.prelock", "archive.file", "archive.pubkey", "migrate.checked", "migrate.prelock", "migrate.before-shift"},
	})
}

type c13Op struct {
	kind    string
	task    *Task
	applied bool
	apply   func()
	verify  func()
}

type c13State struct {
	w      *World
	h      *Hist
	active []*c13Op
	depth  int
	// Impact-rate oracle: a rate collected for timeslot T is stored in T's
	// slot or not at all, whatever lands between fetch and store.
	prevRates map[uint32]map[uint32]float64 // device -> absolute slot -> rate
	fetchedAt map[string]uint32             // goroutine parked after a fetch -> clock at the fetch
	// Key of the most recent server-authorization post (the one parked in a
	// srvauth gap when an interferer is chosen).
	lastSrvKey glow.PublicKey
	// Device of the most recent device-related operation: an interferer is
	// often aimed at the very device the parked operation is about.
	focus *Device
}

var c13PostEffect = map[string]map[string]bool{
	"auth":    {"auth.preforward": true},
	"srvpost": {"srvauth.between": true, "srvauth.prenet": true},
	"stats":   {"stats.postlock": true},
	"sync":    {"sync.between": true},
	"archive": {"archive.file": true, "archive.pubkey": true},
}

func (st *c13State) run(op *c13Op, start func() *Task) {
	st.h.AfterRotations()
	st.w.Logf("%s start (offset %d, now %d)", op.kind, st.h.N.Model.Offset, Slot())
	op.task = start()
	st.active = append(st.active, op)
	st.w.Finish(op.task)
	if !op.applied && op.apply != nil {
		op.apply()
		op.applied = true
	}
	st.h.AfterRotations()
	st.w.Logf("%s done", op.kind)
	for i, a := range st.active {
		if a == op {
			st.active = append(st.active[:i], st.active[i+1:]...)
			break
		}
	}
	if op.verify != nil {
		op.verify()
	}
}

// afterStep applies model effects in the order of the real ones: it runs at
// every quiescent point, after exactly one goroutine has run.
func (st *c13State) afterStep() {
	st.checkRates()
	st.h.applyRotations(false)
	var parked []*Parked
	for _, op := range st.active {
		if op.applied || op.task == nil {
			continue
		}
		passed := op.task.Done()
		if !passed {
			if parked == nil {
				parked = st.w.S.Parked(true)
			}
			for _, p := range parked {
				if p.Name == op.task.Name && c13PostEffect[op.kind][p.Site] {
					passed = true
				}
			}
		}
		if passed {
			// The operation has passed its effect-carrying critical section.
			if op.apply != nil {
				op.apply()
			}
			op.applied = true
		}
	}
}

// checkRates runs at every quiescent point: every impact rate that appeared or
// changed during the last step must sit in the slot of the timeslot the clock
// showed when it was fetched - the current one, or the one recorded when the
// storing goroutine parked between its fetch and its store.
func (st *c13State) checkRates() {
	n := st.h.N
	if !n.Up || n.S == nil {
		return
	}
	off, rates := n.S.VerifRates()
	cur := map[uint32]map[uint32]float64{}
	for id, rs := range rates {
		mm := map[uint32]float64{}
		for _, r := range rs {
			mm[off+r.Index] = r.Rate
		}
		cur[id] = mm
	}
	allowed := map[uint32]bool{Slot(): true}
	parkedNow := map[string]bool{}
	for _, p := range st.w.S.Parked(true) {
		_, fetched := st.fetchedAt[p.Name]
		if p.Node == n.Name && (p.Site == "impact.prelock" || (fetched && isAutoSite(p.Site))) {
			parkedNow[p.Name] = true
		}
	}
	for name, t := range st.fetchedAt {
		allowed[t] = true
		if !parkedNow[name] {
			delete(st.fetchedAt, name) // it has stored (or given up) in this step
		}
	}
	if st.prevRates != nil {
		for id, mm := range cur {
			for abs, v := range mm {
				if old, ok := st.prevRates[id][abs]; ok && old == v {
					continue
				}
				if !allowed[abs] {
					st.w.Fail("C13.linear", "impact-rate", "device %d got an impact rate in the slot of timeslot %d, but the rate was collected for timeslot %v (window offset %d, clock %d): a rotation or clock step between fetch and store misplaced it", id, abs, keysOf(allowed), off, Slot())
				}
			}
		}
	}
	for name := range parkedNow {
		if _, ok := st.fetchedAt[name]; !ok {
			st.fetchedAt[name] = Slot()
		}
	}
	st.prevRates = cur
}

func keysOf(m map[uint32]bool) []uint32 { return mapKeysU32(m) }

func (st *c13State) onPark(p *Parked) {
	w := st.w
	w.Logf("park %s at %s", p.Name, p.Site)
	interesting := isAutoSite(p.Site)
	for _, s := range c13Sites {
		if s == p.Site {
			interesting = true
		}
	}
	if !interesting || p.Node != st.h.N.Name {
		return
	}
	k := w.C.Weighted("interfere", 3, 3, 1)
	for i := 0; i < k; i++ {
		w.Probe("c13.interfere." + p.Site)
		w.Probe("nontrivial")
		st.interferer(p)
	}
}

// interferer runs one operation from the menu while p is parked.
func (st *c13State) interferer(p *Parked) {
	w, h := st.w, st.h
	bans := len(h.N.Model.Bans)
	off := h.N.Model.Offset
	menu := w.C.Weighted("menu", 3, 2, 3, 2, 2, 1, 1, 1)
	aim := st.focus // the device the parked operation is (most likely) about
	// Operations of one kind conflict most with each other (two registrations,
	// two posts about one server, two reports for one slot): a third of the
	// time the interferer is of the kind of the parked operation.
	if w.C.Chance("same-kind", 1, 3) {
		for _, km := range []struct {
			kind string
			menu int
		}{{":register", 7}, {":srvpost", 5}, {":udp@", 2}, {":auth", 0}, {":sync", 6}} {
			if strings.Contains(p.Name, km.kind) {
				menu = km.menu
				break
			}
		}
	}
	if (p.Site == "srvauth.between" || p.Site == "srvauth.prenet") && w.C.Chance("list-op-in-list-gap", 1, 3) {
		menu = 5
	}
	w.Probe("c13.pair." + p.Site + "." + []string{"ban", "authorize", "report", "rotate", "stats-falseneg", "server-post", "sync", "register"}[menu])
	switch menu {
	case 0: // ban: a conflicting authorization for a live device
		live := h.live()
		if len(live) > 1 {
			d := live[w.C.Int("victim", len(live))]
			if aim != nil && w.C.Chance("aim-ban", 1, 2) {
				for _, l := range live {
					if l == aim {
						d = aim
						w.Probe("c13.aimed-ban")
					}
				}
			}
			a := d.Auth
			a.Capacity += 17
			st.opAuthorize(SignAuth(h.GCA, a))
		}
	case 1:
		if len(h.Devs) < 6 {
			i := len(h.Devs)
			d := &Device{Role: fmt.Sprintf("dev%d", i), ID: h.NextID, Key: Key(fmt.Sprintf("dev%d", i))}
			h.NextID++
			d.Auth = StdAuth(h.GCA, d.ID, d.Key, 1000)
			h.Devs = append(h.Devs, d)
			st.opAuthorize(d.Auth)
		}
	case 2:
		if aim != nil && w.C.Chance("aim-report", 1, 2) {
			st.opReportFor(aim)
		} else {
			st.opReport()
		}
	case 3: // rotate: move the clock past the trigger and let the loop run
		if p.Site != "migrate.checked" && p.Site != "migrate.prelock" {
			SetSlot(h.N.Model.Offset + 3201 + uint32(w.C.Int("past", 100)))
			w.Advance(ReportMigrationPeriod + 5*msec)
			h.AfterRotations()
		}
	case 4:
		st.opStats(true)
	case 5:
		if (p.Site == "srvauth.between" || p.Site == "srvauth.prenet") && w.C.Chance("same-server", 2, 3) {
			k := st.lastSrvKey
			st.opServerPostFor(&k)
		} else {
			st.opServerPost()
		}
	case 6:
		st.opSync()
	case 7:
		st.opRegister()
	}
	if len(h.N.Model.Bans) > bans {
		w.Probe("c13.ban-in-gap")
	}
	if h.N.Model.Offset != off {
		w.Probe("c13.rotate-in-gap")
	}
}

func (st *c13State) opAuthorize(a glow.EquipmentAuthorization) {
	n := st.h.N
	for _, d := range st.h.Devs {
		if d.ID == a.ShortID {
			st.focus = d
		}
	}
	res := &HTTPResult{}
	var want AuthResult
	op := &c13Op{kind: "auth"}
	op.apply = func() { want = n.Model.Authorize(a) }
	op.verify = func() {
		if res.Panic != nil {
			st.w.Fail("C13.panic", "authorize-equipment", "handler panicked: %v\n%s", res.Panic, firstRepoFrames(res.Stack))
		}
		ok := res.Status == 200
		if (want == AuthNew && !ok) || (want == AuthRefused && ok) {
			st.w.Fail("C13.linear", "authorize", "authorization for id %d: status %d, the sequential rules in critical-section order say %s", a.ShortID, res.Status, want)
		}
	}
	body, _ := json.Marshal(a)
	st.run(op, func() *Task { return n.RequestAsync("auth", "POST", "/api/v1/authorize-equipment", body, res) })
}

// opRegister posts a registration (valid for one of two candidate keys, or
// signed by the wrong key); after the first success every further one must be
// refused.
func (st *c13State) opRegister() {
	n := st.h.N
	c := st.w.C
	cand := []*KeyPair{st.h.GCA, st.h.GCA, st.h.GCA, Key("gcaB")}[c.Int("cand", 4)]
	signer := n.Temp
	if c.Chance("wrong-signer", 1, 4) {
		signer = cand
	}
	reg := server.GCARegistration{GCAKey: cand.Pub}
	reg.Signature = glow.Sign(RegistrationSigningBytes(cand.Pub), signer.Priv)
	res := &HTTPResult{}
	var want bool
	op := &c13Op{kind: "register"}
	op.apply = func() { want = n.Model.Register(reg.GCAKey, reg.Signature) }
	op.verify = func() {
		if res.Panic != nil {
			st.w.Fail("C13.panic", "register-gca", "handler panicked: %v\n%s", res.Panic, firstRepoFrames(res.Stack))
		}
		if (res.Status == 200) != want {
			st.w.Fail("C13.linear", "register", "registration of %s signed by %s: status %d, sequential rules in critical-section order say success=%v", cand.Role, signer.Role, res.Status, want)
		}
	}
	body, _ := json.Marshal(reg)
	st.run(op, func() *Task { return n.RequestAsync("register", "POST", "/api/v1/register-gca", body, res) })
}

// pickDev chooses a device: the aimed-at one if given, else a seeded one; it
// becomes the focus of later interferers.
func (st *c13State) pickDev(aim *Device) *Device {
	d := aim
	if d == nil {
		d = st.h.Devs[st.w.C.Int("dev", len(st.h.Devs))]
	}
	st.focus = d
	return d
}

func (st *c13State) opReport() { st.opReportFor(nil) }

func (st *c13State) opReportFor(aim *Device) {
	h := st.h
	if len(h.Devs) == 0 {
		return
	}
	c := st.w.C
	d := st.pickDev(aim)
	now := Slot()
	back := uint32(c.Int("back", 40))
	if back > now {
		back = now
	}
	v := []uint64{500, 600, 2, 1500}[c.Int("value", 4)]
	b := SignedReport(d.Key, d.ID, now-back, v).Encode()
	op := &c13Op{kind: "report"}
	// The handler reads the clock inside its critical section: the effect is
	// evaluated with the clock at that moment (the operation may have been
	// parked in front of the lock while the clock was moved).
	op.apply = func() { h.N.Model.Deliver(b, Slot()) }
	st.run(op, func() *Task {
		return st.w.Go("udp@"+h.N.Name, func() { h.N.S.VerifHandleDatagram(b) })
	})
	if op.task.Panic != nil {
		st.w.Fail("C13.panic", "datagram", "report handler panicked: %v\n%s", op.task.Panic, firstRepoFrames(op.task.Stack))
	}
}

func (st *c13State) opStats(falseNeg bool) {
	n := st.h.N
	res := &HTTPResult{}
	// (the third choice is the first week past the live window: refused)
	half := st.w.C.Weighted("half", 3, 3, 1)
	if half == 2 {
		st.w.Probe("c13.stats-future-week")
	}
	archived := -1
	if len(n.Model.Weeks) > 0 && st.w.C.Chance("archived", 1, 2) {
		archived = st.w.C.Int("week", len(n.Model.Weeks))
	}
	var want *WeekModel
	var target string
	op := &c13Op{kind: "stats"}
	// The target offset is fixed when the request is sent.
	if archived >= 0 {
		target = fmt.Sprintf("/api/v1/all-device-stats?timeslot_offset=%d", archived*2016)
	} else {
		target = fmt.Sprintf("/api/v1/all-device-stats?timeslot_offset=%d", n.Model.Offset+uint32(half)*2016)
	}
	reqOffset := n.Model.Offset + uint32(half)*2016
	if archived >= 0 {
		reqOffset = uint32(archived) * 2016
	}
	if falseNeg {
		target += "&insert_false_negatives=true"
	}
	refused := false
	op.apply = func() {
		m := n.Model
		switch {
		case reqOffset < m.Offset:
			w := m.Weeks[reqOffset/2016]
			want = &w
		case reqOffset == m.Offset:
			want = m.LiveWeek(0)
		case reqOffset == m.Offset+2016:
			want = m.LiveWeek(1)
		default:
			refused = true
		}
	}
	op.verify = func() {
		if res.Panic != nil {
			st.w.Fail("C13.panic", "all-device-stats", "handler panicked: %v\n%s", res.Panic, firstRepoFrames(res.Stack))
		}
		if refused {
			if res.Status == 200 {
				st.w.Fail("C13.linear", "stats", "a week that was in the future when the request entered its critical section was served")
			}
			return
		}
		if res.Status != 200 {
			st.w.Fail("C13.linear", "stats", "week %d not served (%d) although it was available when the request entered its critical section", reqOffset, res.Status)
		}
		if falseNeg {
			return
		}
		ads := decodeStats(st.w, res.Body)
		if err := CompareWeek(want, ads, n.Key.Pub); err != nil {
			st.w.Fail("C13.linear", "stats", "statistics reply differs from the state at its critical section: %v", err)
		}
	}
	st.run(op, func() *Task { return n.RequestAsync("stats", "GET", target, nil, res) })
}

func (st *c13State) opServerPost() { st.opServerPostFor(nil) }

// opServerPostFor posts a server authorization; with target set it is the GCA's
// ban of exactly that server (the order that matters most when it lands in a
// gap of another post for the same server).
func (st *c13State) opServerPostFor(target *glow.PublicKey) {
	n := st.h.N
	c := st.w.C
	as := server.AuthorizedServer{PublicKey: Key(fmt.Sprintf("peer%d", c.Int("peer", 8))).Pub, Banned: c.Chance("ban", 1, 4), Location: n.Loc, HttpPort: n.HTTP, TcpPort: n.TCP, UdpPort: n.UDP}
	if c.Chance("self", 1, 4) {
		as.PublicKey = n.Key.Pub
	}
	if target != nil {
		as.PublicKey, as.Banned = *target, true
		st.w.Probe("c13.ban-of-server-being-added")
	}
	st.lastSrvKey = as.PublicKey
	as = SignServer(st.h.GCA, as)
	res := &HTTPResult{}
	var want bool
	op := &c13Op{kind: "srvpost"}
	op.apply = func() { want = n.Model.AuthorizeServer(as) }
	op.verify = func() {
		if res.Panic != nil {
			st.w.Fail("C13.panic", "authorized-servers", "handler panicked: %v\n%s", res.Panic, firstRepoFrames(res.Stack))
		}
		if (res.Status == 200) != want {
			st.w.Fail("C13.linear", "server-post", "server authorization: status %d, sequential rules say accepted=%v", res.Status, want)
		}
	}
	body, _ := json.Marshal(as)
	st.run(op, func() *Task { return n.RequestAsync("srvpost", "POST", "/api/v1/authorized-servers", body, res) })
}

func (st *c13State) opMigrate() {
	n := st.h.N
	if len(st.h.Devs) == 0 {
		return
	}
	d := st.pickDev(nil)
	em := SignMigration(st.h.GCA, server.EquipmentMigration{Equipment: d.Key.Pub, NewGCA: Key("gcaNew").Pub, NewShortID: d.ID + 100,
		NewServers: []server.AuthorizedServer{SignServer(Key("gcaNew"), server.AuthorizedServer{PublicKey: Key("newsrv").Pub, Location: "new.sim", HttpPort: 1, TcpPort: 2, UdpPort: 3})}})
	res := &HTTPResult{}
	var want bool
	op := &c13Op{kind: "order"}
	op.apply = func() { want = n.Model.Migrate(em) }
	op.verify = func() {
		if res.Panic != nil {
			st.w.Fail("C13.panic", "equipment-migrate", "handler panicked: %v\n%s", res.Panic, firstRepoFrames(res.Stack))
		}
		if (res.Status == 200) != want {
			st.w.Fail("C13.linear", "migrate", "migration order: status %d, sequential rules say accepted=%v", res.Status, want)
		}
	}
	body, _ := json.Marshal(em)
	st.run(op, func() *Task { return n.RequestAsync("order", "POST", "/api/v1/equipment-migrate", body, res) })
}

func (st *c13State) opSync() {
	n := st.h.N
	if len(st.h.Devs) == 0 {
		return
	}
	d := st.pickDev(nil)
	var wantBits map[uint32]bool
	wantRefused := false
	var wantOffset uint32
	op := &c13Op{kind: "sync"}
	op.apply = func() {
		dm, ok := n.Model.Devices[d.ID]
		if !ok {
			wantRefused = true
			return
		}
		wantOffset = n.Model.Offset
		wantBits = map[uint32]bool{}
		for slot := range dm.Slots {
			wantBits[slot-n.Model.Offset] = true
		}
	}
	var reply []byte
	var req [4]byte
	binary.LittleEndian.PutUint32(req[:], d.ID)
	var srvTask *Task
	st.run(op, func() *Task {
		cli, srv := SimPipe()
		srvTask = st.w.Go("sync@"+n.Name, func() { n.S.VerifHandleSyncConn(srv) })
		ct := st.w.Go("syncclient", func() {
			cli.Write(req[:])
			buf := make([]byte, 70000)
			k := 0
			for {
				x, err := cli.Read(buf[k:])
				k += x
				if err != nil {
					break
				}
			}
			reply = buf[:k]
			cli.Close()
		})
		// The server side task carries the critical sections.
		op2 := srvTask
		_ = ct
		return op2
	})
	st.w.Settle()
	if srvTask.Panic != nil {
		st.w.Fail("C13.panic", "sync", "sync handler panicked: %v\n%s", srvTask.Panic, firstRepoFrames(srvTask.Stack))
	}
	// Let the client finish reading.
	for i := 0; i < 3 && len(reply) == 0; i++ {
		st.w.Settle()
	}
	r, err := DecodeSyncReply(reply)
	if err != nil {
		st.w.Fail("C13.linear", "sync", "sync reply does not decode: %v", err)
	}
	if r.Refused != wantRefused {
		st.w.Fail("C13.linear", "sync", "sync for id %d: refused=%v, state at its critical section says refused=%v", d.ID, r.Refused, wantRefused)
	}
	if !r.Refused {
		if r.Offset != wantOffset {
			st.w.Fail("C13.linear", "sync", "sync reply carries offset %d, the state at its critical section had %d", r.Offset, wantOffset)
		}
		for i := 0; i < 4032; i++ {
			if r.Bits[i] != wantBits[uint32(i)] {
				st.w.Fail("C13.linear", "sync", "sync reply bit %d = %v, the state at its critical section says %v", i, r.Bits[i], wantBits[uint32(i)])
			}
		}
	}
}

func (st *c13State) opArchive() {
	n := st.h.N
	res := &HTTPResult{}
	op := &c13Op{kind: "archive"}
	op.verify = func() {
		if res.Panic != nil {
			st.w.Fail("C13.panic", "archive", "handler panicked: %v\n%s", res.Panic, firstRepoFrames(res.Stack))
		}
	}
	st.run(op, func() *Task { return n.RequestAsync("archive", "GET", "/api/v1/archive", nil, res) })
}

func decodeStats(w *World, body []byte) *server.AllDeviceStats {
	var js struct {
		Devices []struct {
			PowerOutputs []int64
			PublicKey    glow.PublicKey
			ImpactRates  []float64
		}
		TimeslotOffset uint32
		Signature      glow.Signature
	}
	if err := json.Unmarshal(body, &js); err != nil {
		w.Fail(w.Prop+".decode", "all-device-stats", "reply does not decode: %v", err)
	}
	ads := &server.AllDeviceStats{TimeslotOffset: js.TimeslotOffset, Signature: js.Signature}
	for _, d := range js.Devices {
		var ds server.DeviceStats
		ds.PublicKey = d.PublicKey
		for i, v := range d.PowerOutputs {
			if i < 2016 {
				ds.PowerOutputs[i] = uint64(v)
			}
		}
		copy(ds.ImpactRates[:], d.ImpactRates)
		ads.Devices = append(ads.Devices, ds)
	}
	return ads
}

func runC13(m *Sim) {
	w := NewWorld(m)
	defer w.Shutdown()
	h := NewHist(w, "srv0", "C13")
	st := &c13State{w: w, h: h, fetchedAt: map[string]uint32{}}
	SetSlot(uint32(500 + m.C.Int("now0", 2500)))
	h.Boot()
	lateRegistration := m.C.Chance("late-registration", 1, 4)
	if !lateRegistration {
		h.Setup(2 + m.C.Int("devices", 2))
	} else {
		m.Probe("c13.late-registration")
	}
	n := h.N
	if !lateRegistration && m.C.Chance("real-peer", 1, 2) {
		// A second real server; the two list each other (the normal redundant
		// set-up). It only receives what srv0 forwards - new devices, new
		// servers -, and its handlers pass their own yield points while srv0's
		// forwarding goroutine waits for the answer: a lock srv0 holds across
		// that call is seen by the lock probe.
		b := w.AddServer("peer0", "temp-peer0", true)
		b.Boot()
		b.DoRegister(h.GCA.Pub, b.Temp)
		for _, target := range []*ServerNode{n, b} {
			for _, subj := range []*ServerNode{n, b} {
				target.DoAuthorizeServer(SignServer(h.GCA, server.AuthorizedServer{PublicKey: subj.Key.Pub, Location: subj.Loc, HttpPort: subj.HTTP, TcpPort: subj.TCP, UdpPort: subj.UDP}))
			}
		}
		m.Probe("c13.real-peer")
	}
	// Every mutex must be free at every quiescent point.
	m.QuiesceCheck = func() {
		for _, name := range sortedKeys(w.Servers) {
			s := w.Servers[name]
			if !s.Up || s.S == nil {
				continue
			}
			a, b, c := s.S.VerifTryLocks()
			if !a || !b || !c {
				m.Fail("C13.lock", "held-at-rest", "a mutex of %s is held while every goroutine is parked or blocked (main=%v servers=%v limiter=%v, phase %s)", name, a, b, c, w.Phase)
			}
		}
	}
	// Swarm: a seeded subset of the sites is active in this run.
	var on []string
	for _, s := range c13Sites {
		// In the A flavour every hook site is active: an operation must park at
		// the site that follows its effect-carrying critical section (that is
		// where its effect enters the model) before it can park at an inserted
		// site further down the same handler.
		if m.C.Chance("site-on", 3, 4) || os.Getenv("VERIF_AUTO_YIELD") != "" {
			on = append(on, s)
		}
	}
	w.S.EnableSites(on...)
	if os.Getenv("VERIF_AUTO_YIELD") != "" {
		// A flavour: the repository copy has a yield point in front of every
		// lock acquisition; park there too (never inside a critical section).
		w.S.AutoOn = true
		w.S.LocksFree = func(node string) bool {
			s := w.Servers[node]
			if s == nil || !s.Up || s.S == nil {
				return true
			}
			a, b, c := s.S.VerifTryLocks()
			return a && b && c
		}
		m.Probe("c13.auto-yield")
	}
	w.OnPark = st.onPark
	w.AfterStep = st.afterStep

	nops := 10 + m.C.Int("ops", 30)
	for i := 0; i < nops; i++ {
		w.Phase = fmt.Sprintf("op%d", i)
		if lateRegistration && i == 2+m.C.Int("register-at", 6) && !n.Model.Registered {
			// The GCA registers while traffic is already arriving.
			st.opRegister()
		}
		switch m.C.Weighted("op", 6, 2, 2, 3, 2, 1, 2, 3, 1, 1) {
		case 9:
			st.opRegister()
		case 0:
			st.opReport()
		case 1:
			if len(h.Devs) < 6 {
				d := &Device{Role: fmt.Sprintf("dev%d", len(h.Devs)), ID: h.NextID, Key: Key(fmt.Sprintf("dev%d", len(h.Devs)))}
				h.NextID++
				d.Auth = StdAuth(h.GCA, d.ID, d.Key, 1000)
				h.Devs = append(h.Devs, d)
				st.opAuthorize(d.Auth)
			}
		case 2:
			if live := h.live(); len(live) > 1 {
				a := live[m.C.Int("victim", len(live))].Auth
				a.Debt += 3
				st.opAuthorize(SignAuth(h.GCA, a))
			}
		case 3:
			st.opStats(m.C.Chance("false-neg", 1, 2))
		case 4:
			st.opServerPost()
		case 5:
			st.opMigrate()
		case 6:
			st.opSync()
		case 7: // time passes: the impact and rotation jobs run (and park)
			if m.C.Chance("jump", 1, 3) {
				SetSlot(h.N.Model.Offset + 3201 + uint32(m.C.Int("past", 300)))
			}
			w.Advance(time.Duration(20+m.C.Int("ms", 120)) * time.Millisecond)
			h.AfterRotations()
		case 8:
			st.opArchive()
		}
		h.AfterRotations()
		n.Check("C13.linear", "after-op")
		n.CheckServers("C13.linear")
	}
	w.OnPark = nil
	w.AfterStep = nil
	w.S.AutoOn = false
	w.S.DisableSites(c13Sites...)
	w.Advance(150 * time.Millisecond)
	h.AfterRotations()
	n.Check("C13.linear", "final")
	h.CheckArchiveImmutable("final")
	checkSurfaces(w, n, h.live())
}

// isAutoSite: a yield point that the pinned tree does not have - inserted by
// the A flavour's rewriting or added by the change under test.
func isAutoSite(site string) bool {
	return strings.HasPrefix(site, "auto.") || !knownYieldSites[site]
}
