//go:build test

package sim

// C01 - only authentic, authorized, in-window reports change server state.
// The network is the adversary: valid reports pass through a fabric that may
// flip bits, swap fields, re-sign under every other key in the system, drop or
// replace the signing prefix, move the timeslot to the acceptance and window
// boundaries, set sentinel powers, truncate, extend or replace the datagram by
// random bytes. Configurations (now, offset) are reached by real means: clock
// jumps, rotations done by the real loop, the rotation loop held parked at its
// wake-up yield (a stalled thread), restarts with catch-up.

import (
	"bytes"
	"encoding/binary"
	"math/big"
	"reflect"

	"github.com/ethereum/go-ethereum/crypto"

	"github.com/glowlabs-org/gca-backend/glow"
	"github.com/glowlabs-org/gca-backend/server"
)

func init() {
	Register(&Property{
		ID:             "C01",
		Run:            runC01,
		Rule:           "runs = one (now, offset) configuration reached by clock jumps / real rotations / a stalled rotation thread / restart, then 60-400 adversarial datagrams (bit flips, field swaps, re-signing under every other key, prefix tampering, boundary timeslots, sentinel powers, truncation, extension, random bytes, replays, the other root s -> N-s of a genuine signature); non-trivial = at least one non-acceptable datagram of at least three different kinds was delivered; distinct = distinct decision signatures",
		Real:           []string{"server report handler (parse, verify, acceptance range, window guard, integrate, persist)", "rotation loop, impact loop", "stats/recent-reports/sync surfaces", "glow codecs and secp256k1", "real files on tmpfs"},
		Stub:           []string{"UDP socket read loop (modelled: datagrams shorter than 80 bytes are discarded, longer ones cut to 80)"},
		Assumptions:    []string{"the kernel-facing UDP loop hands exactly the leading 80 bytes of datagrams of at least 80 bytes to the report handler"},
		RequiredProbes: []string{"c01.accepted", "c01.kind.bitflip", "c01.kind.resign-other", "c01.kind.slot-edge", "c01.kind.short", "c01.kind.long", "c01.kind.sentinel", "c01.kind.malleated-signature", "c01.stalled", "c01.rotated", "c01.edge.window-end", "c01.edge.accept+433", "c01.edge.accept-433", "c01.edge.32-bit-extreme"},
		RequiredSites:  []string{"migrate.wake", "report.before-write", "report.after-write", "migrate.before-shift", "listen.udp"},
	})
}

type c01Snap struct {
	S    *server.VerifSnap
	File []byte
}

func c01Take(n *ServerNode) c01Snap {
	return c01Snap{S: n.Snap(), File: n.ReadFile("equipment-reports.dat")}
}

func runC01(m *Sim) {
	w := NewWorld(m)
	defer w.Shutdown()
	nd := 2 + m.C.Int("devices", 2)
	caps := make([]uint64, nd)
	for i := range caps {
		caps[i] = []uint64{1000, 0, 1 << 40}[m.C.Int("cap", 3)]
	}
	SetSlot(uint32(m.C.Int("now0", 400)))
	n, gca, devs := w.StdSetup("srv0", caps)
	// One banned id (authorized, then banned by a conflicting authorization)
	// and one id that was never authorized; the forger holds their keys too.
	banned := &Device{Role: "devBanned", ID: 20, Key: Key("devBanned")}
	banned.Auth = StdAuth(gca, 20, banned.Key, 1000)
	n.DoAuthorize(banned.Auth)
	conflict := banned.Auth
	conflict.Capacity = 1001
	n.DoAuthorize(SignAuth(gca, conflict))
	unknown := &Device{Role: "devUnknown", ID: 99, Key: Key("devUnknown")}
	n.Check("C01.accepted-effect", "setup")

	// ---- reach a configuration ------------------------------------------
	rot := m.C.Int("rotations", 3)
	for i := 0; i < rot; i++ {
		SetSlot(n.Model.Offset + 3201 + uint32(m.C.Int("late", 300)))
		// A few reports before the rotation so that there is data to move.
		for j := 0; j < 2; j++ {
			d := devs[m.C.Int("dev", len(devs))]
			r := SignedReport(d.Key, d.ID, Slot()-uint32(m.C.Int("back", 400)), uint64(5+j))
			n.DoDatagram(r.Encode())
		}
		w.Advance(ReportMigrationPeriod + 10*msec)
		c01SyncRotations(w, n)
		m.Probe("c01.rotated")
	}
	if m.C.Chance("restart", 1, 5) {
		SetSlot(n.Model.Offset + uint32(m.C.Int("restart-delta", 8200)))
		n.Stop()
		if err := n.Start(); err != nil {
			m.Fail("C01.start", "restart", "server does not restart: %v", err)
		}
		n.Model.CatchUp(Slot())
		c01SyncRotations(w, n)
		m.Probe("c01.restarted")
	}
	stalled := m.C.Chance("stalled", 1, 2)
	var delta int
	if stalled {
		// The rotation thread is stalled: now-offset may sit anywhere.
		w.S.Hold(n.Name + ":migrate.wake")
		delta = []int{3201, 3599, 3600, 3601, 3999, 4031, 4032, 4033, 4464, 4500, m.C.Int("delta-any", 4500), m.C.Int("delta-any", 4500)}[m.C.Int("delta-kind", 12)]
		m.Probe("c01.stalled")
	} else {
		delta = []int{0, 1, 431, 432, 433, 2015, 2016, 2017, 3200, m.C.Int("delta-any", 3201), m.C.Int("delta-any", 3201)}[m.C.Int("delta-kind", 11)]
	}
	cur0 := Slot()
	target := n.Model.Offset + uint32(delta)
	if !stalled && int64(cur0)-int64(n.Model.Offset) > 3200 {
		target = cur0 // cannot go back below the trigger without rotating
	}
	SetSlot(target)
	if !stalled {
		w.Advance(ReportMigrationPeriod + 10*msec)
		c01SyncRotations(w, n)
	}
	n.Check("C01.accepted-effect", "config")

	// ---- adversarial traffic ---------------------------------------------
	others := []*KeyPair{gca, n.Key, n.Temp, banned.Key, unknown.Key}
	nmsg := 60 + m.C.Int("msgs", 120)
	if m.Tier == "thorough" {
		nmsg += m.C.Int("msgs-more", 300)
	}
	var history [][]byte
	kinds := map[string]bool{}
	for i := 0; i < nmsg; i++ {
		now := Slot()
		off := n.Model.Offset
		d := devs[m.C.Int("dev", len(devs))]
		// Base: a well-formed report of an authorized device.
		slotChoices := []int64{int64(now), int64(now) - 432, int64(now) + 432, int64(now) - 433, int64(now) + 433,
			int64(off) - 1, int64(off), int64(off) + 4031, int64(off) + 4032, int64(off) + 4033,
			int64(now) - int64(m.C.Int("near", 433)), int64(now) + int64(m.C.Int("near", 433)), int64(off) + int64(m.C.Int("inwin", 4032)),
			// The far ends of the 32 bit range: differences and sums that wrap when
			// they are computed in 32 bits (now+2^32-k, now+2^31, offset-k mod 2^32).
			1<<32 - 1, 1<<32 - 1 - int64(m.C.Int("top", 500)), 1 << 31, 1<<31 - 1, int64(now) + 1<<31,
			(int64(now) + 1<<32 - int64(m.C.Int("wrap-back", 500))) % (1 << 32), (int64(off) + 1<<32 - 1 - int64(m.C.Int("wrap-off", 4032))) % (1 << 32)}
		sc := m.C.Int("slot-kind", len(slotChoices))
		sl := slotChoices[sc]
		if sl < 0 {
			sl = 0
		}
		slot := uint32(sl)
		power := []uint64{5, 7, 2, 3, 1 << 63, 1351, 0, 1}[m.C.Weighted("power", 4, 3, 2, 1, 1, 1, 1, 1)]
		switch sc {
		case 3:
			m.Probe("c01.edge.accept-433")
		case 4:
			m.Probe("c01.edge.accept+433")
		case 8:
			m.Probe("c01.edge.window-end")
		}
		if sc >= 13 {
			m.Probe("c01.edge.32-bit-extreme")
		}
		if sc >= 1 && sc <= 9 {
			kinds["slot-edge"] = true
			m.Probe("c01.kind.slot-edge")
		}
		if power < 2 {
			kinds["sentinel"] = true
			m.Probe("c01.kind.sentinel")
		}
		r := SignedReport(d.Key, d.ID, slot, power)
		b := r.Encode()
		kind := m.C.Weighted("mutation", 6, 3, 2, 3, 2, 2, 2, 2, 1, 2, 1, 2, 2)
		name := "asis"
		switch kind {
		case 1: // bit flips
			name = "bitflip"
			k := 1 + m.C.Int("flips", 3)
			for j := 0; j < k; j++ {
				bit := m.C.Int("bit", 640)
				b[bit/8] ^= 1 << uint(bit%8)
			}
		case 2: // swap fields
			name = "fieldswap"
			switch m.C.Int("swap", 3) {
			case 0:
				copy(b[0:4], r.Encode()[4:8])
				copy(b[4:8], r.Encode()[0:4])
			case 1:
				binary.LittleEndian.PutUint64(b[8:], uint64(r.Slot))
				binary.LittleEndian.PutUint32(b[4:], uint32(r.Power))
			case 2:
				copy(b[16:48], r.Sig[32:])
				copy(b[48:80], r.Sig[:32])
			}
		case 3: // re-sign under another key of the system
			name = "resign-other"
			var k *KeyPair
			x := m.C.Int("signer", len(others)+len(devs))
			if x < len(others) {
				k = others[x]
			} else {
				k = devs[x-len(others)].Key
			}
			if k == d.Key {
				name = "asis"
				break
			}
			r2 := r
			r2.Sig = glow.Sign(ReportSigningBytes(r.ID, r.Slot, r.Power), k.Priv)
			b = r2.Encode()
		case 4: // signing prefix dropped or replaced
			name = "prefix"
			body := ReportSigningBytes(r.ID, r.Slot, r.Power)[15:]
			pre := [][]byte{nil, []byte("EquipmentAuthorization"), []byte("equipmentreport"), []byte("EquipmentReport ")}[m.C.Int("prefix", 4)]
			r2 := r
			r2.Sig = glow.Sign(append(append([]byte{}, pre...), body...), d.Key.Priv)
			b = r2.Encode()
		case 5: // report of the banned or of the unknown device, well signed
			name = "unauthorized-device"
			x := banned
			if m.C.Chance("unknown", 1, 2) {
				x = unknown
			}
			b = SignedReport(x.Key, x.ID, slot, power).Encode()
		case 6: // truncated
			name = "short"
			b = b[:m.C.Int("len", 80)]
			m.Probe("c01.kind.short")
		case 7: // extended: the leading 80 bytes are what counts
			name = "long"
			extra := make([]byte, 1+m.C.Int("extra", 120))
			for j := range extra {
				extra[j] = byte(m.C.Int("byte", 256))
			}
			b = append(b, extra...)
			m.Probe("c01.kind.long")
		case 8: // random bytes
			name = "random"
			b = make([]byte, m.C.Int("rlen", 201))
			for j := range b {
				b[j] = byte(m.C.Int("byte", 256))
			}
		case 9: // replay of an earlier datagram
			name = "replay"
			if len(history) > 0 {
				b = history[m.C.Int("which", len(history))]
			}
		case 10: // valid signature by the device over other content
			name = "sig-other-content"
			r2 := r
			r2.Sig = glow.Sign(ReportSigningBytes(r.ID, r.Slot, r.Power+1), d.Key.Priv)
			b = r2.Encode()
		case 12: // the other root of the same signature (s -> N-s): needs no key
			name = "malleated-signature"
			src := b
			if len(history) > 0 && m.C.Chance("of-earlier", 1, 2) {
				src = history[m.C.Int("which", len(history))]
			}
			if len(src) >= 80 {
				b = append([]byte{}, src[:80]...)
				sv := new(big.Int).SetBytes(b[48:80])
				sv.Sub(crypto.S256().Params().N, sv)
				sv.FillBytes(b[48:80])
			}
			m.Probe("c01.kind.malleated-signature")
		case 11: // id of one device, key of another device
			name = "id-key-mismatch"
			o := devs[(int(d.ID-10)+1)%len(devs)]
			r2 := r
			r2.Sig = glow.Sign(ReportSigningBytes(r.ID, r.Slot, r.Power), o.Key.Priv)
			b = r2.Encode()
		}
		if name == "bitflip" {
			m.Probe("c01.kind.bitflip")
		}
		if name == "resign-other" {
			m.Probe("c01.kind.resign-other")
		}
		kinds[name] = true
		history = append(history, b)

		before := c01Take(n)
		n.Datagram(b)
		changed, why := n.Model.Deliver(b, now)
		m.Sig = append(m.Sig, "k:"+name+"/"+why)
		after := c01Take(n)
		if !changed {
			if !reflect.DeepEqual(before.S, after.S) {
				m.Fail("C01.unchanged", why, "a %s datagram (%s, %d bytes, now=%d offset=%d) changed the server state: %s", name, why, len(b), now, off, snapDiff(before.S, after.S))
			}
			if !bytes.Equal(before.File, after.File) {
				m.Fail("C01.unchanged", why, "a %s datagram (%s) changed equipment-reports.dat (%d -> %d bytes)", name, why, len(before.File), len(after.File))
			}
		} else {
			m.Probe("c01.accepted")
			if err := n.Model.CompareSnap(after.S); err != nil {
				m.Fail("C01.accepted-effect", why, "after an acceptable report (%s): %v", why, err)
			}
			// The report log grew by exactly this record, the recent list
			// ends with it.
			if len(after.File) != len(before.File)+80 || !bytes.Equal(after.File[len(before.File):], b[:80]) || !bytes.Equal(after.File[:len(before.File)], before.File) {
				m.Fail("C01.accepted-effect", "report-log", "acceptable report (%s): equipment-reports.dat went from %d to %d bytes, expected the 80 byte record appended", why, len(before.File), len(after.File))
			}
			if len(after.S.Recent) == 0 || !bytes.Equal(after.S.Recent[len(after.S.Recent)-1].Serialize(), b[:80]) {
				m.Fail("C01.accepted-effect", "recent-list", "acceptable report (%s) is not the newest entry of the recent reports", why)
			}
			// Nothing but this device's window, the recent list and the log
			// may differ.
			if err := c01OnlyDevice(before.S, after.S, binary.LittleEndian.Uint32(b[0:4])); err != nil {
				m.Fail("C01.accepted-effect", "crosstalk", "%v", err)
			}
		}
		if i%40 == 39 {
			c02Surfaces(w, n, devs)
		}
	}
	if m.Tier == "thorough" && m.C.Chance("all-640-bits", 1, 3) {
		// Every single-bit mutation of one freshly accepted report.
		now := Slot()
		d := devs[m.C.Int("dev", len(devs))]
		slot := now
		if int64(slot) < int64(n.Model.Offset) || int64(slot) >= int64(n.Model.Offset)+4032 {
			slot = n.Model.Offset + 100
		}
		base := SignedReport(d.Key, d.ID, slot, 777).Encode()
		n.DoDatagram(base)
		for bit := 0; bit < 640; bit++ {
			b := append([]byte{}, base...)
			b[bit/8] ^= 1 << uint(bit%8)
			before := c01Take(n)
			n.Datagram(b)
			changed, why := n.Model.Deliver(b, now)
			after := c01Take(n)
			if !changed && (!reflect.DeepEqual(before.S, after.S) || !bytes.Equal(before.File, after.File)) {
				m.Fail("C01.unchanged", why, "flipping bit %d of an accepted report (%s) changed the server state: %s", bit, why, snapDiff(before.S, after.S))
			}
			if changed {
				if err := n.Model.CompareSnap(after.S); err != nil {
					m.Fail("C01.accepted-effect", why, "bit %d flipped (%s): %v", bit, why, err)
				}
			}
		}
		m.Probe("c01.all-640-bits")
	}
	if len(kinds) >= 4 {
		m.Probe("nontrivial")
	}
	c02Surfaces(w, n, devs)
	c01Recent(w, n, devs)
}

// c01SyncRotations applies to the model the rotations the real loop performed.
func c01SyncRotations(w *World, n *ServerNode) {
	s := n.Snap()
	for n.Model.Offset < s.Offset {
		n.Model.Rotate()
	}
}

func c01OnlyDevice(a, b *server.VerifSnap, id uint32) error {
	x, y := *a, *b
	x.Recent, y.Recent = nil, nil
	xr, yr := map[uint32][]server.VerifSlot{}, map[uint32][]server.VerifSlot{}
	for k, v := range a.Reports {
		if k != id {
			xr[k] = v
		}
	}
	for k, v := range b.Reports {
		if k != id {
			yr[k] = v
		}
	}
	x.Reports, y.Reports = xr, yr
	if !reflect.DeepEqual(&x, &y) {
		return errorf("an acceptable report for device %d changed something else: %s", id, snapDiff(&x, &y))
	}
	return nil
}

// c01Recent checks the recent-reports endpoint against the model.
func c01Recent(w *World, n *ServerNode, devs []*Device) {
	for _, d := range devs {
		vals, st := n.GetRecent(d.Key.Pub)
		if st != 200 {
			w.Fail("C01.accepted-effect", "recent-reports", "recent reports of authorized device %d not served: %d", d.ID, st)
		}
		for i := 0; i < 4032; i++ {
			want := n.Model.Devices[d.ID].Slots[n.Model.Offset+uint32(i)].Value()
			if vals[i] != want {
				w.Fail("C01.accepted-effect", "recent-reports", "device %d slot index %d: endpoint says %d, model %d", d.ID, i, vals[i], want)
			}
		}
	}
}
