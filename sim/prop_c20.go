//go:build !test

package sim

// C20 - timeslot arithmetic is exact; production constants keep the window
// safe. Production-constant flavour (-tags verif): the protocol clock follows
// the bubble clock, the rotation check runs hourly, the impact loop every two
// minutes, WattTime is reached through the http.DefaultTransport seam.
//
// (a) clock jumps: the bubble clock is moved from before genesis through slot
//     edges, by strides, and to the far end of the 32 bit range; at every
//     visited instant the three conversions are compared with an integer
//     model.
// (c) cadence: a production-constant server runs simulated weeks with devices
//     reporting at now+432 and now-432 every slot, the rotation thread delayed
//     by up to one check period and WattTime slow or failing: no report that is
//     acceptable by its timeslot may ever fall outside the stored window.
//
// The acceptance comparison at the low uint32 extreme (now < 432) needs the
// manual clock and is exercised by C01 in the test flavour; the high extreme is
// not reachable by real means (the window offset only grows by rotations).

import (
	"fmt"
	"sync/atomic"
	"time"

	"github.com/glowlabs-org/gca-backend/glow"
	"github.com/glowlabs-org/gca-backend/server"
)

func init() {
	Register(&Property{
		ID:             "C20",
		Run:            runC20,
		Rule:           "runs = either (a) a walk of the simulated clock from before genesis through 200-2000 instants (slot edges -1s/0/+1s/+299s/+300s, strides of hours to years, the end of the 32 bit second range in year 2159) comparing CurrentTimeslot, UnixToTimeslot and TimeslotToUnix with an integer model, round trip and monotonicity, or (c) a production-constant server run of 2-4 simulated weeks with two devices reporting now+432 and now-432 every slot and, now and then, 433-2000 slots off (which must leave no trace), the rotation thread delayed by up to one check period, WattTime answering, slow or failing; non-trivial = a cadence run that rotated at least once with a delayed rotation thread, or a clock walk that crossed the far end; distinct = distinct decision signatures",
		Real:           []string{"glow timeslot conversions and the production CurrentTimeslot", "production-constant server: rotation loop (hourly check), impact loop, weekly WattTime refresh, report handler"},
		Stub:           []string{"system clock (bubble clock, 2000-01-01 onwards, forward only)", "WattTime service (harness responder behind http.DefaultTransport)", "socket listeners"},
		Assumptions:    []string{"the pure conversion functions are exercised at the instants the simulated clock visits plus the listed boundaries (input enumeration, not simulation)", "the acceptance comparisons at the ends of the 32 bit range (clock below 432, clock and timeslots near 2^31 and 2^32) are exercised by the test-flavour supplement (settable protocol clock), which runs for a third of the budget; the production flavour cannot move its clock there"},
		RequiredProbes: []string{"c20.walk.far-end", "c20.walk.pre-genesis", "c20.cadence.rotated", "c20.cadence.delayed-rotation", "c20.cadence.watttime-fault", "c20.cadence.edge-report", "c20.cadence.beyond-half-width", "c20.cadence.watttime-outage", "c20.cadence.edge-report-after-restart"},
	})
}

const genesisUnix = 1700352000 // 2023-11-19T00:00:00Z, from the property statement

func runC20(m *Sim) {
	if int64(glow.GenesisTime) != genesisUnix {
		m.Fail("C20.genesis", "constant", "production genesis is %d, the protocol fixes 2023-11-19T00:00:00Z = %d", int64(glow.GenesisTime), genesisUnix)
	}
	if got := time.Unix(genesisUnix, 0).UTC().Format(time.RFC3339); got != "2023-11-19T00:00:00Z" {
		panic("harness: genesis constant wrong: " + got)
	}
	if m.C.Chance("mode-cadence", 1, 2) {
		c20Cadence(m)
	} else {
		c20Walk(m)
	}
}

func sleepUntil(unix int64) {
	d := time.Until(time.Unix(unix, 0))
	if d > 0 {
		time.Sleep(d)
	}
}

func c20CheckInstant(m *Sim, prevSlot *int64) {
	now := time.Now().Unix()
	if now < genesisUnix {
		m.Probe("c20.walk.pre-genesis")
		if _, err := glow.UnixToTimeslot(now); err == nil {
			m.Fail("C20.convert", "pre-genesis", "unix time %d before genesis was converted to a timeslot", now)
		}
		return
	}
	want := (now - genesisUnix) / 300
	if want > 1<<32-1 {
		return
	}
	cur := int64(glow.CurrentTimeslot())
	if cur != want {
		m.Fail("C20.convert", "current", "CurrentTimeslot() = %d at unix %d, the integer model gives %d", cur, now, want)
	}
	if now-genesisUnix <= 1<<32-1 {
		ts, err := glow.UnixToTimeslot(now)
		if err != nil || int64(ts) != want {
			m.Fail("C20.convert", "unix-to-slot", "UnixToTimeslot(%d) = (%d, %v), the integer model gives %d", now, ts, err, want)
		}
		if want*300 <= 1<<32-1 {
			back := glow.TimeslotToUnix(ts)
			if back != genesisUnix+want*300 || back > now || now-back >= 300 {
				m.Fail("C20.convert", "round-trip", "TimeslotToUnix(%d) = %d, the slot containing unix %d starts at %d", ts, back, now, genesisUnix+want*300)
			}
		}
	}
	if want < *prevSlot {
		m.Fail("C20.convert", "monotone", "the timeslot went from %d to %d while the clock moved forward", *prevSlot, want)
	}
	*prevSlot = want
	m.NoteState(want % 1000)
}

func c20Walk(m *Sim) {
	prev := int64(-1)
	// Before genesis.
	sleepUntil(genesisUnix - int64(1+m.C.Int("before", 400)))
	c20CheckInstant(m, &prev)
	sleepUntil(genesisUnix - 1)
	c20CheckInstant(m, &prev)
	sleepUntil(genesisUnix)
	c20CheckInstant(m, &prev)
	steps := 200 + m.C.Int("steps", 800)
	for i := 0; i < steps; i++ {
		now := time.Now().Unix()
		slotStart := genesisUnix + (now-genesisUnix)/300*300
		var target int64
		k := m.C.Weighted("step", 3, 3, 3, 3, 2, 2, 1)
		m.Sig = append(m.Sig, fmt.Sprintf("w%d", k))
		switch k {
		case 0:
			target = now + 1
		case 1:
			target = slotStart + 299
		case 2:
			target = slotStart + 300
		case 3:
			target = slotStart + 301
		case 4:
			target = now + int64(1+m.C.Int("hours", 48))*3600
		case 5:
			target = now + int64(1+m.C.Int("days", 4000))*86400
		case 6:
			target = slotStart + 300*int64(1+m.C.Int("slots", 5000)) - 1
		}
		if target-genesisUnix > 1<<32-1 {
			target = genesisUnix + 1<<32 - 1
		}
		if target <= now {
			continue
		}
		sleepUntil(target)
		c20CheckInstant(m, &prev)
		progress.Add(1)
	}
	if m.C.Chance("far-end", 1, 3) {
		for _, off := range []int64{1<<32 - 301, 1<<32 - 300, 1<<32 - 2, 1<<32 - 1} {
			if genesisUnix+off > time.Now().Unix() {
				sleepUntil(genesisUnix + off)
				c20CheckInstant(m, &prev)
			}
		}
		m.Probe("c20.walk.far-end")
		m.Probe("nontrivial")
	}
	// Listed boundaries of the pure functions (no clock involved).
	for _, ts := range []uint32{0, 1, 2015, 2016, 14316556, 14316557} {
		u := glow.TimeslotToUnix(ts)
		if int64(ts)*300 <= 1<<32-1 && u != genesisUnix+int64(ts)*300 {
			m.Fail("C20.convert", "slot-to-unix", "TimeslotToUnix(%d) = %d, want %d", ts, u, genesisUnix+int64(ts)*300)
		}
	}
}

func c20Cadence(m *Sim) {
	w := NewWorld(m)
	defer w.Shutdown()
	MaxTaskWait = 1 << 62
	// Start somewhere after genesis, not aligned with anything.
	sleepUntil(genesisUnix + int64(m.C.Int("start-s", 400000)))
	var faults atomic.Int64
	// WattTime outages: for hours or days every request fails (login
	// included). The rotation cadence must not depend on that service.
	// The responder is reached by several background jobs, at times at the same
	// simulated instant: its decisions are keyed (see Keyed), not drawn.
	var outageUntil time.Time
	kd := NewKeyed(m.C, "watttime-key")
	w.WattTime = func(path string) (int, time.Duration) {
		at := time.Since(m.Start).Nanoseconds()
		if time.Now().Before(outageUntil) {
			faults.Add(1)
			m.Probe("c20.cadence.watttime-fault")
			return 1 + kd.Int(2, "outage-kind", path, at), 0
		}
		k := kd.Weighted([]int{12, 1, 1}, "watttime", path, at)
		d := time.Duration(0)
		if kd.Chance(1, 6, "slow", path, at) {
			d = time.Duration(1+kd.Int(20, "slow-s", path, at)) * time.Second
		}
		if k != 0 || d > 0 {
			faults.Add(1)
			m.Probe("c20.cadence.watttime-fault")
		}
		return k, d
	}
	n := w.AddServer("srv0", "temp-srv0", true)
	n.Boot()
	gca := Key("gcaA")
	n.DoRegister(gca.Pub, n.Temp)
	devs := []*Device{{Role: "dev0", ID: 10, Key: Key("dev0")}, {Role: "dev1", ID: 11, Key: Key("dev1")}}
	for _, d := range devs {
		d.Auth = StdAuth(gca, d.ID, d.Key, 1<<40)
		n.DoAuthorize(d.Auth)
	}
	consts := server.VerifConsts()
	period := consts.MigrationFrequency
	weeks := 2 + m.C.Int("weeks", 3)
	endAt := time.Now().Add(time.Duration(weeks) * 7 * 24 * time.Hour)
	rotations := 0
	delayed := false
	maxLag := int64(0)
	restarted := false
	edgeReports := func(now uint32) {
		for _, d := range devs {
			for _, slot := range []int64{int64(now) + 432, int64(now) - 432} {
				if slot < 0 {
					continue
				}
				b := SignedReport(d.Key, d.ID, uint32(slot), 500).Encode()
				r, ok, why := n.Model.Acceptable(b, now)
				_ = r
				// Acceptable by its timeslot (within 432 of now) but outside
				// the stored window: the cadence failed to rotate in time.
				diff := slot - int64(now)
				if !ok && why == "outside-window" && diff >= -432 && diff <= 432 && slot >= int64(n.Model.Offset) {
					m.Fail("C20.cadence-run", "window", "a report for timeslot %d is within 432 slots of now=%d but past the stored window [%d,%d): the rotation cadence did not rotate in time", slot, now, n.Model.Offset, n.Model.Offset+4032)
				}
				n.DoDatagram(b)
				m.Probe("c20.cadence.edge-report")
			}
		}
	}
	for time.Now().Before(endAt) {
		// Once per run the server may be down for days and come back late:
		// the documented start-up rule (rotate while now-offset >= 4000) plus
		// the first loop check must leave a window that holds every
		// acceptable report.
		if !restarted && m.C.Chance("late-restart", 1, 400) {
			restarted = true
			n.Stop()
			time.Sleep(time.Duration(1+m.C.Int("offline-h", 500)) * time.Hour)
			if err := n.Start(); err != nil {
				m.Fail("C20.cadence-run", "restart", "server does not restart after being offline: %v", err)
			}
			// Start-up leaves now-offset below 4000 (documented rule); the loop's
			// first check then rotates if it is above 3200, after its WattTime
			// fetch. One check period later the running cadence must hold again.
			if lag := int64(Slot()) - int64(n.Snap().Offset); lag >= 4000 {
				m.Fail("C20.cadence-run", "startup", "after a late restart the clock is %d slots past the window offset: start-up catch-up must bring it below 4000", lag)
			}
			// The first check runs at once; ten minutes cover its WattTime fetch
			// (a handful of requests, each answered within 20 s here). From then
			// on every acceptable report must find its slot in the window - not
			// only one check period later.
			w.Advance(10 * time.Minute)
			off := n.Snap().Offset
			for n.Model.Offset < off {
				n.Model.Rotate()
				rotations++
			}
			edgeReports(Slot())
			m.Probe("c20.cadence.edge-report-after-restart")
			w.Advance(period)
			off = n.Snap().Offset
			for n.Model.Offset < off {
				n.Model.Rotate()
				rotations++
			}
			if lag := int64(Slot()) - int64(off); lag > 3200+int64(period/(300*time.Second))+3 {
				m.Fail("C20.cadence-run", "startup", "one check period after a late restart the clock is still %d slots past the window offset %d", lag, off)
			}
			m.Probe("c20.cadence.late-restart")
		}
		// An outage of the WattTime service, preferably beginning shortly before
		// a rotation is due and lasting long enough to cover the slack.
		if lag := int64(Slot()) - int64(n.Model.Offset); time.Now().After(outageUntil) &&
			(m.C.Chance("watttime-outage", 1, 1500) || (lag >= 3150 && lag <= 3200 && m.C.Chance("outage-before-rotation", 1, 12))) {
			outageUntil = time.Now().Add(time.Duration(6+m.C.Int("outage-h", 67)) * time.Hour)
			m.Probe("c20.cadence.watttime-outage")
		}
		// Sometimes the rotation thread is delayed by up to one check period.
		if m.C.Chance("delay-rotation", 1, 40) {
			w.S.Hold(n.Name + ":migrate.wake")
			w.Advance(time.Duration(1+m.C.Int("delay-min", int(period/time.Minute))) * time.Minute)
			w.S.Unhold(n.Name + ":migrate.wake")
			delayed = true
			m.Probe("c20.cadence.delayed-rotation")
		}
		w.Advance(300 * time.Second)
		off := n.Snap().Offset
		for n.Model.Offset < off {
			n.Model.Rotate()
			rotations++
			m.Probe("c20.cadence.rotated")
		}
		now := Slot()
		if lag := int64(now) - int64(off); lag > maxLag {
			maxLag = lag
		}
		edgeReports(now)
		// Beyond the half-width nothing is acceptable: were the server's own
		// range wider than 432, the inequality above would be about another
		// number. A report just outside must leave no record.
		if m.C.Chance("beyond-half-width", 1, 10) {
			d := devs[m.C.Int("beyond-dev", len(devs))]
			k := []int64{433, 434, 500, 864, 865, 1000, 2000}[m.C.Int("beyond-k", 7)]
			if m.C.Chance("beyond-past", 1, 2) {
				k = -k
			}
			if slot := int64(now) + k; slot >= 0 {
				before, _, _ := n.S.VerifWindow(d.ID, true)
				n.DoDatagram(SignedReport(d.Key, d.ID, uint32(slot), 600).Encode())
				if reps, _, ok := n.S.VerifWindow(d.ID, true); ok {
					if i := slot - int64(n.Model.Offset); i >= 0 && i < 4032 && reps[i] != before[i] {
						m.Fail("C20.cadence-run", "half-width", "a report dated %+d slots from the clock (now=%d) changed the record of its timeslot: the server's acceptance range is wider than 432 slots, the cadence inequality no longer protects the window", k, now)
					}
				}
				m.Probe("c20.cadence.beyond-half-width")
			}
		}
		if m.C.Chance("compare", 1, 50) {
			n.Check("C20.cadence-run", "model")
		}
	}
	n.Check("C20.cadence-run", "final")
	if maxLag+432 >= 4032 {
		m.Fail("C20.cadence-run", "lag", "the clock ran up to %d slots ahead of the window offset: with the +-432 acceptance range a report can fall outside the 4032 slot window", maxLag)
	}
	recs, err := ParseStatsFileP(n.ReadFile("allDeviceStats.dat"))
	if err != nil {
		m.Fail("C20.cadence-run", "archive", "allDeviceStats.dat does not parse: %v", err)
	}
	for i, off := range recs {
		if off != uint32(i)*2016 {
			m.Fail("C20.cadence-run", "contiguous", "archived week %d has offset %d", i, off)
		}
	}
	if rotations > 0 && delayed {
		m.Probe("nontrivial")
	}
	m.Sig = append(m.Sig, fmt.Sprintf("cad:w%d/r%d/lag%d/f%d", weeks, rotations, maxLag/100, faults.Load()/50))
}
