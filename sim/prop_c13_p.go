//go:build !test

package sim

// C13, production-constant supplement: the weekly WattTime refresh
// (managedGetWattTimeWeekData) only does real work in the production build, so
// its "list devices / fetch / re-lock and store" gaps are exercised here: a
// production-constant server with the WattTime responder, the week.* and
// impact.* yield sites active, and bans, authorizations, reports and rotations
// injected while a job is parked between two critical sections.

import (
	"fmt"
	"time"
)

func init() {
	Register(&Property{
		ID:   "C13",
		Run:  runC13P,
		Rule: "production-constant supplement of C13: 1-3 simulated days of a server with the weekly and the two-minute WattTime jobs doing real work against the responder; at every park of a job between two critical sections (week.listed, week.prelock, impact.listed, impact.prelock, migrate.prelock) 0-2 interfering operations (ban, authorize, report, restart-free rotation by clock) are injected; no panic, no leaked lock, model agreement at the end",
		Real: []string{"managedGetWattTimeWeekData, managedGetWattTimeIndexData with real HTTP calls through the seam", "rotation loop, report and authorization paths"},
		Stub: []string{"WattTime service (harness responder)", "socket listeners"},
	})
}

func runC13P(m *Sim) {
	w := NewWorld(m)
	defer w.Shutdown()
	MaxTaskWait = 1 << 62
	sleepUntilP(1700352000 + int64(m.C.Int("start-s", 900000)))
	n := w.AddServer("srv0", "temp-srv0", true)
	n.Boot()
	gca := Key("gcaA")
	n.DoRegister(gca.Pub, n.Temp)
	var devs []*Device
	newDev := func() {
		i := len(devs)
		d := &Device{Role: fmt.Sprintf("dev%d", i), ID: uint32(10 + i), Key: Key(fmt.Sprintf("dev%d", i))}
		d.Auth = StdAuth(gca, d.ID, d.Key, 1<<40)
		n.DoAuthorize(d.Auth)
		devs = append(devs, d)
	}
	for i := 0; i < 2+m.C.Int("devices", 2); i++ {
		newDev()
	}
	w.S.EnableSites("week.listed", "week.prelock", "impact.listed", "impact.prelock", "migrate.prelock")
	interfered := 0
	w.OnPark = func(p *Parked) {
		switch p.Site {
		case "week.listed", "week.prelock", "migrate.prelock":
		case "impact.listed", "impact.prelock":
			// The two-minute job parks hundreds of times per simulated day;
			// its gaps are covered in the test flavour, keep the budget (and
			// the devices that can still be banned) for the weekly job.
			if !m.C.Chance("impact-too", 1, 200) {
				return
			}
		default:
			return
		}
		k := m.C.Weighted("interfere", 2, 3, 1)
		for i := 0; i < k; i++ {
			interfered++
			m.Probe("c13p.interfere." + p.Site)
			switch m.C.Weighted("menu", 3, 2, 3) {
			case 0: // ban a live device
				var live []*Device
				for _, d := range devs {
					if _, ok := n.Model.Devices[d.ID]; ok {
						live = append(live, d)
					}
				}
				if len(live) > 1 {
					a := live[m.C.Int("victim", len(live))].Auth
					a.Debt += 5
					n.DoAuthorize(SignAuth(gca, a))
					m.Probe("c13p.ban-in-gap")
				}
			case 1:
				if len(devs) < 6 {
					newDev()
				}
			case 2:
				d := devs[m.C.Int("dev", len(devs))]
				n.DoDatagram(SignedReport(d.Key, d.ID, Slot()-uint32(m.C.Int("back", 30)), 500).Encode())
			}
		}
	}
	days := 1 + m.C.Int("days", 3)
	end := time.Now().Add(time.Duration(days) * 24 * time.Hour)
	for time.Now().Before(end) {
		w.Advance(time.Duration(10+m.C.Int("min", 120)) * time.Minute)
		off := n.Snap().Offset
		for n.Model.Offset < off {
			n.Model.Rotate()
		}
	}
	w.OnPark = nil
	if interfered > 0 {
		m.Probe("nontrivial")
	}
	n.Check("C13.linear", "final-production-flavour")
}

func sleepUntilP(unix int64) {
	if d := time.Until(time.Unix(unix, 0)); d > 0 {
		time.Sleep(d)
	}
}
