package sim

// watttime_sim.go: a small, well-behaved WattTime responder for the
// production-constant flavour (the test flavour never calls out). It answers
// /login, /v3/region-from-loc and /v3/historical the way the documented API
// does, with values that are a fixed function of the point time; a policy may
// make it slow (within the caller's patience) or fail.

import (
	"encoding/json"
	"fmt"
	"io"
	"net/http"
	"strings"
	"time"
)

// WattTimePolicy decides per request: 0 answer, 1 refuse, 2 status 500,
// and an optional delay before answering.
type WattTimePolicy func(path string) (kind int, delay time.Duration)

func jsonResp(req *http.Request, code int, v interface{}) *http.Response {
	b, _ := json.Marshal(v)
	return &http.Response{StatusCode: code, Status: fmt.Sprintf("%d %s", code, http.StatusText(code)), Body: io.NopCloser(strings.NewReader(string(b))),
		Header: http.Header{"Content-Type": []string{"application/json"}}, Request: req, Proto: "HTTP/1.1", ProtoMajor: 1, ProtoMinor: 1, ContentLength: int64(len(b))}
}

func parseWTTime(s string) (time.Time, error) {
	for _, layout := range []string{"2006-01-02T15:04:05Z", "2006-01-02T15:04-07:00", "2006-01-02T15:04:05Z07:00", "2006-01-02T15:04Z07:00"} {
		if t, err := time.Parse(layout, s); err == nil {
			return t, nil
		}
	}
	return time.Time{}, fmt.Errorf("bad time %q", s)
}

// wattTimeServe answers a request to api.watttime.org.
func (w *World) wattTimeServe(req *http.Request) (*http.Response, error) {
	kind, delay := 0, time.Duration(0)
	if w.WattTime != nil {
		kind, delay = w.WattTime(req.URL.Path)
	}
	if delay > 0 {
		time.Sleep(delay)
	}
	w.Probe("watttime.request")
	switch kind {
	case 1:
		w.Fault("watttime.refused")
		return nil, &netError{msg: "dial tcp api.watttime.org:443: connect: connection refused"}
	case 2:
		w.Fault("watttime.500")
		return jsonResp(req, 500, map[string]string{"error": "internal"}), nil
	}
	switch req.URL.Path {
	case "/login":
		return jsonResp(req, 200, map[string]string{"token": "sim-token"}), nil
	case "/v3/region-from-loc":
		return jsonResp(req, 200, map[string]string{"region": "SIM_REGION"}), nil
	case "/v3/historical":
		q := req.URL.Query()
		start, err1 := parseWTTime(q.Get("start"))
		end, err2 := parseWTTime(q.Get("end"))
		if err1 != nil || err2 != nil {
			return jsonResp(req, 400, map[string]string{"error": "bad range"}), nil
		}
		type point struct {
			PointTime string  `json:"point_time"`
			Value     float64 `json:"value"`
		}
		var data []point
		t := start.Truncate(5 * time.Minute)
		if t.Before(start) {
			t = t.Add(5 * time.Minute)
		}
		for ; !t.After(end) && len(data) < 5000; t = t.Add(5 * time.Minute) {
			data = append(data, point{PointTime: t.UTC().Format("2006-01-02T15:04:05+00:00"), Value: 800 + float64(t.Unix()/300%97)})
		}
		out := map[string]interface{}{"data": data, "meta": map[string]interface{}{"data_point_period_seconds": 300, "region": "SIM_REGION", "signal_type": "co2_moer", "units": "lbs_co2_per_mwh"}}
		return jsonResp(req, 200, out), nil
	}
	return jsonResp(req, 404, map[string]string{"error": "not found"}), nil
}

// nasaServe answers a request to power.larc.nasa.gov with a small, well-formed
// hourly series (or fails, by policy).
func (w *World) nasaServe(req *http.Request) (*http.Response, error) {
	kind := 0
	if w.WattTime != nil {
		kind, _ = w.WattTime("nasa")
	}
	w.Probe("nasa.request")
	switch kind {
	case 1:
		w.Fault("nasa.refused")
		return nil, &netError{msg: "dial tcp power.larc.nasa.gov:443: connect: connection refused"}
	case 2:
		w.Fault("nasa.500")
		return jsonResp(req, 500, map[string]string{"error": "internal"}), nil
	}
	series := map[string]float64{}
	for d := 1; d <= 3; d++ {
		for h := 0; h < 24; h++ {
			series[fmt.Sprintf("202301%02d%02d", d, h)] = float64(h * 30)
		}
	}
	return jsonResp(req, 200, map[string]interface{}{"type": "Feature", "properties": map[string]interface{}{"parameter": map[string]interface{}{"ALLSKY_SFC_SW_DWN": series}}}), nil
}
