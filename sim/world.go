package sim

// world.go: the simulated world - server nodes running the real GCAServer
// inside the bubble, the network fabric (UDP queue, TCP pipes with a fault
// layer, HTTP round tripper serving peers' real handlers), restarts.

import (
	"bytes"
	cryptorand "crypto/rand"
	"encoding/json"
	"errors"
	"fmt"
	"io"
	"net"
	"net/http"
	"net/http/httptest"
	"os"
	"path/filepath"
	"runtime"
	"strconv"
	"strings"
	"sync"
	"time"

	"github.com/glowlabs-org/gca-backend/glow"
	"github.com/glowlabs-org/gca-backend/server"
)

// World holds the nodes of one run.
type World struct {
	*Sim
	Servers map[string]*ServerNode // by node name
	byLoc   map[string]*ServerNode // by location (host name)
	Clients map[string]*ClientNode

	// Silent is closed when the world shuts down: it releases callers that
	// hang on a peer that never answers.
	Silent     chan struct{}
	silentDone bool

	// Nesting depth of server-to-server forwards per goroutine.
	fwdMu    sync.Mutex
	fwdDepth map[int64]int

	// UDP fabric.
	UDPQueue   []*Datagram
	UDPSeq     int
	UDPCapture func(d *Datagram) // observes every datagram handed to the fabric
	// UDPPolicy decides what happens to a queued datagram. nil = deliver.
	UDPPolicy func(d *Datagram) UDPAction

	// HTTPPolicy decides the fate of an outbound http request from a
	// node. nil = serve.
	HTTPPolicy func(from, to string, req *http.Request) HTTPAction
	// WattTime decides how the simulated WattTime service behaves (nil = well).
	WattTime WattTimePolicy
	// HTTPObserve sees every outbound request that a peer served.
	HTTPObserve func(to *ServerNode, req *http.Request, body []byte, status int)
	// DialPolicy decides the fate of a tcp dial. nil = connect.
	DialPolicy func(address string) DialAction

	// rand is the seeded replacement of crypto/rand.Reader.
	rand *seededReader

	// delivered lists the datagrams handed to a running node, in order.
	delivered   [][]byte
	deliverHook func(d *Datagram)
}

// cur is the world of the run in progress (hooks are process globals).
var cur *World

// Datagram is a UDP datagram in flight.
type Datagram struct {
	Seq  int
	To   string // location host:port
	Data []byte
	Dup  bool
}

type UDPAction int

const (
	UDPDeliver UDPAction = iota
	UDPDrop
	UDPDuplicate
	UDPDelay
)

type HTTPAction struct {
	Kind  int // 0 serve, 1 refuse, 2 timeout after Delay, 3 status 503, 4 silent (accepts, never answers)
	Delay time.Duration
}

type DialAction struct {
	Kind int // 0 connect, 1 refuse
	// Conn, if set, replaces the server side: the harness answers itself.
	Serve func(c net.Conn)
	// Wrap lets the fault layer alter what the client reads.
	Wrap func(c net.Conn) net.Conn
}

// ServerNode is one GCA server process.
type ServerNode struct {
	W     *World
	Name  string
	Dir   string
	Loc   string
	S     *server.GCAServer
	Up    bool
	Key   *KeyPair // nil when the server generates its own key
	Temp  *KeyPair
	HTTP  uint16
	TCP   uint16
	UDP   uint16
	Inc   int
	Born  time.Time
	Model *ServerModel
	// LastBody is the (shortened) body of the last statistics reply.
	LastBody string
}

// installHooks points the process-global seams at the current world.
func installHooks() {
	glow.VerifSetActive(true)
	glow.VerifYieldHook = func(owner interface{}, site string) {
		if w := cur; w != nil {
			w.S.yield(owner, site)
		}
	}
	glow.VerifPointHook = func(owner interface{}, site string) {
		if w := cur; w != nil {
			w.S.point(owner, site)
		}
	}
	glow.VerifUDPHook = func(report []byte, location string) error {
		if w := cur; w != nil {
			return w.sendUDP(report, location)
		}
		return errors.New("no simulated world")
	}
	glow.VerifDialHook = func(network, address string) (net.Conn, error) {
		if w := cur; w != nil {
			return w.dial(network, address)
		}
		return nil, errors.New("no simulated world")
	}
	http.DefaultTransport = fabricTransport{}
	cryptorand.Reader = worldReader{}
}

// NewWorld creates the world of a run; must be called inside the bubble.
func NewWorld(m *Sim) *World {
	w := &World{Sim: m, Servers: map[string]*ServerNode{}, byLoc: map[string]*ServerNode{}, Clients: map[string]*ClientNode{}, fwdDepth: map[int64]int{}}
	cur = w
	m.LifeLimited = true
	m.QuiesceCheck = w.lockProbe
	return w
}

// lockProbe runs at every quiescent point: parked goroutines hold no locks and
// everything else is blocked outside critical sections, so every mutex of
// every running node must be free. A failure names the mutex before anything
// blocks on it.
func (w *World) lockProbe() {
	for _, name := range sortedKeys(w.Servers) {
		n := w.Servers[name]
		if !n.Up || n.S == nil {
			continue
		}
		a, b, c := n.S.VerifTryLocks()
		if !a || !b || !c {
			w.Fail(w.Prop+".lock", "server", "a mutex of %s is held while every goroutine is parked or blocked (main=%v servers=%v limiter=%v, phase %s)", n.Name, a, b, c, w.Phase)
		}
	}
	for _, name := range sortedKeys(w.Clients) {
		c := w.Clients[name]
		if !c.Up || c.C == nil {
			continue
		}
		if !c.C.VerifTryLock() {
			w.Fail(w.Prop+".lock", "client", "the mutex of client %s is held while every goroutine is parked or blocked (phase %s): a code path returned without unlocking", c.Name, w.Phase)
		}
	}
}

// AddServer prepares the directory of a server node (not started yet).
func (w *World) AddServer(name string, tempRole string, preinstallKey bool) *ServerNode {
	idx := len(w.Servers)
	n := &ServerNode{W: w, Name: name, Dir: filepath.Join(w.Dir, name), Loc: name + ".sim",
		Temp: Key(tempRole), HTTP: uint16(8000 + idx), TCP: uint16(8100 + idx), UDP: uint16(8200 + idx)}
	must(os.MkdirAll(filepath.Join(n.Dir, "watttime_data"), 0755))
	must(os.WriteFile(filepath.Join(n.Dir, "gcaTempPubKey.dat"), n.Temp.Pub[:], 0644))
	must(os.WriteFile(filepath.Join(n.Dir, "watttime_data", "username"), []byte("hi"), 0644))
	must(os.WriteFile(filepath.Join(n.Dir, "watttime_data", "password"), []byte("ih"), 0644))
	if preinstallKey {
		n.Key = Key("key-" + name)
		var data [96]byte
		copy(data[:32], n.Key.Pub[:])
		copy(data[32:], n.Key.Priv[:])
		must(os.WriteFile(filepath.Join(n.Dir, "server.keys"), data[:], 0644))
	}
	w.Servers[name] = n
	w.byLoc[n.Loc] = n
	return n
}

func must(err error) {
	if err != nil {
		panic(fmt.Sprintf("harness: %v", err))
	}
}

// Start boots a server incarnation on the node's directory. The returned
// error is NewGCAServer's.
func (n *ServerNode) Start() error {
	var err error
	var s *server.GCAServer
	n.W.S.mu.Lock()
	n.W.S.constructing = n.Name
	n.W.S.mu.Unlock()
	t := n.W.Do("start@"+n.Name, func() {
		s, err = server.NewGCAServer(n.Dir)
	})
	n.W.S.mu.Lock()
	n.W.S.constructing = ""
	n.W.S.mu.Unlock()
	if t.Panic != nil {
		n.W.Fail(n.W.Prop+".panic", "start", "server start panicked: %v\n%s", t.Panic, t.Stack)
	}
	if err != nil {
		return err
	}
	n.S = s
	n.Up = true
	n.Inc++
	n.Born = time.Now()
	s.VerifSetPorts(n.HTTP, n.TCP, n.UDP)
	// Let the background loops run their first iteration.
	n.W.Settle()
	return nil
}

// Stop closes the server gracefully.
func (n *ServerNode) Stop() {
	if !n.Up {
		return
	}
	s := n.S
	n.Up = false
	n.W.S.mu.Lock()
	for k := range n.W.S.hold {
		if strings.HasPrefix(k, n.Name+":") {
			delete(n.W.S.hold, k)
		}
	}
	n.W.S.mu.Unlock()
	t := n.W.Do("close@"+n.Name, func() {
		s.Close()
	})
	if t.Panic != nil {
		n.W.Fail(n.W.Prop+".panic", "close", "server Close panicked: %v\n%s", t.Panic, t.Stack)
	}
	// Forget the owner so that a new incarnation is named afresh.
	n.W.S.mu.Lock()
	delete(n.W.S.ownerNode, interface{}(s))
	n.W.S.mu.Unlock()
	n.S = nil
}

// Snap returns the canonical snapshot of the running server.
func (n *ServerNode) Snap() *server.VerifSnap {
	s := n.S.VerifSnapshot(true)
	return &s
}

// Datagram hands a datagram to the node the way the UDP listener does: a
// datagram shorter than 80 bytes is discarded, a longer one is cut to 80.
func (n *ServerNode) Datagram(b []byte) {
	if !n.Up {
		return
	}
	if len(b) < 80 {
		return
	}
	buf := make([]byte, 80)
	copy(buf, b[:80])
	t := n.W.Do("udp@"+n.Name, func() {
		n.S.VerifHandleDatagram(buf)
	})
	if t.Panic != nil {
		n.W.Fail(n.W.Prop+".panic", "datagram", "report handler panicked: %v\n%s", t.Panic, firstRepoFrames(t.Stack))
	}
}

// HTTPResult is the outcome of an inbound http request.
type HTTPResult struct {
	Status int
	Body   []byte
	Panic  interface{}
	Stack  string
}

// Request serves an inbound http request with the node's real routing table.
func (n *ServerNode) Request(method, target string, body []byte) *HTTPResult {
	res := &HTTPResult{}
	if !n.Up {
		res.Status = -1
		return res
	}
	t := n.W.Do(method+target+"@"+n.Name, func() {
		res.Status, res.Body = n.serve(method, target, body, nil)
	})
	if t.Panic != nil {
		res.Panic = t.Panic
		res.Stack = t.Stack
	}
	return res
}

// RequestAsync starts an inbound http request as a task without driving it.
func (n *ServerNode) RequestAsync(label, method, target string, body []byte, res *HTTPResult) *Task {
	return n.W.Go(label+":"+method+target+"@"+n.Name, func() {
		defer func() {
			if r := recover(); r != nil {
				buf := make([]byte, 16<<10)
				k := runtime.Stack(buf, false)
				res.Panic = r
				res.Stack = string(buf[:k])
			}
		}()
		res.Status, res.Body = n.serve(method, target, body, nil)
	})
}

func (n *ServerNode) serve(method, target string, body []byte, hdr http.Header) (int, []byte) {
	var rd io.Reader
	if body != nil {
		rd = bytes.NewReader(body)
	}
	req := httptest.NewRequest(method, target, rd)
	for k, v := range hdr {
		req.Header[k] = v
	}
	rec := httptest.NewRecorder()
	n.S.VerifHandler().ServeHTTP(rec, req)
	return rec.Code, rec.Body.Bytes()
}

// MustOK fails the run if a request panicked.
func (n *ServerNode) noPanic(res *HTTPResult, what string) {
	if res.Panic != nil {
		n.W.Fail(n.W.Prop+".panic", what, "http handler panicked: %v\n%s", res.Panic, firstRepoFrames(res.Stack))
	}
}

// PostJSON posts a JSON document.
func (n *ServerNode) PostJSON(path string, v interface{}) *HTTPResult {
	b, err := json.Marshal(v)
	must(err)
	res := n.Request("POST", path, b)
	n.noPanic(res, path)
	return res
}

// Get performs a GET.
func (n *ServerNode) Get(target string) *HTTPResult {
	res := n.Request("GET", target, nil)
	n.noPanic(res, strings.SplitN(target, "?", 2)[0])
	return res
}

// Register posts a GCA registration signed by signer.
func (n *ServerNode) Register(gca glow.PublicKey, signer *KeyPair) *HTTPResult {
	reg := server.GCARegistration{GCAKey: gca}
	reg.Signature = glow.Sign(RegistrationSigningBytes(gca), signer.Priv)
	return n.PostJSON("/api/v1/register-gca", reg)
}

// SyncSession performs one raw TCP sync session: it writes req, then reads
// everything the server sends until it closes the connection.
func (n *ServerNode) SyncSession(req []byte) (reply []byte, panicked interface{}, stack string) {
	cli, srv := SimPipe()
	st := n.W.Go("tcp@"+n.Name, func() {
		n.S.VerifHandleSyncConn(srv)
	})
	ct := n.W.Go("tcpclient", func() {
		cli.Write(req)
		if len(req) < 4 {
			// A request that ends early: the peer closes its connection.
			cli.Close()
			return
		}
		reply, _ = io.ReadAll(cli)
		cli.Close()
	})
	n.W.Finish(ct)
	n.W.Finish(st)
	return reply, st.Panic, st.Stack
}

// ---- UDP fabric -------------------------------------------------------------

func (w *World) sendUDP(report []byte, location string) error {
	d := &Datagram{Seq: w.UDPSeq, To: location, Data: append([]byte(nil), report...)}
	w.UDPSeq++
	if w.UDPCapture != nil {
		w.UDPCapture(d)
	}
	w.UDPQueue = append(w.UDPQueue, d)
	return nil
}

func (w *World) nodeAt(location string) *ServerNode {
	host := location
	if i := strings.LastIndex(location, ":"); i >= 0 {
		host = location[:i]
	}
	return w.byLoc[host]
}

// PumpUDP processes the queued datagrams according to the UDP policy. It is
// called by the driver between steps. Delayed datagrams stay queued.
func (w *World) PumpUDP() {
	q := w.UDPQueue
	w.UDPQueue = nil
	var keep []*Datagram
	for len(q) > 0 {
		// Reordering: any queued datagram may be chosen next.
		i := 0
		if len(q) > 1 && w.UDPPolicy != nil {
			i = w.C.Int("udp.order", len(q))
			if i != 0 {
				w.Fault("udp.reorder")
			}
		}
		d := q[i]
		q = append(q[:i], q[i+1:]...)
		act := UDPDeliver
		if w.UDPPolicy != nil {
			act = w.UDPPolicy(d)
		}
		switch act {
		case UDPDrop:
			w.Fault("udp.drop")
		case UDPDelay:
			w.Fault("udp.delay")
			keep = append(keep, d)
		case UDPDuplicate:
			w.Fault("udp.duplicate")
			w.deliverUDP(d)
			w.deliverUDP(d)
		default:
			w.deliverUDP(d)
		}
	}
	w.UDPQueue = append(keep, w.UDPQueue...)
}

func (w *World) deliverUDP(d *Datagram) {
	n := w.nodeAt(d.To)
	if n == nil || !n.Up {
		w.Fault("udp.node-down")
		return
	}
	n.Datagram(d.Data)
	if w.deliverHook != nil {
		w.deliverHook(d)
	}
}

// ---- HTTP fabric ------------------------------------------------------------

type fabricTransport struct{}

type netError struct {
	msg     string
	timeout bool
}

func (e *netError) Error() string   { return e.msg }
func (e *netError) Timeout() bool   { return e.timeout }
func (e *netError) Temporary() bool { return true }

func (fabricTransport) RoundTrip(req *http.Request) (*http.Response, error) {
	w := cur
	if w == nil {
		return nil, errors.New("no simulated world")
	}
	host := req.URL.Hostname()
	if host == "api.watttime.org" {
		return w.wattTimeServe(req)
	}
	if host == "power.larc.nasa.gov" {
		return w.nasaServe(req)
	}
	n := w.byLoc[host]
	// Forwarding depth: a request served through the fabric runs on the
	// caller's goroutine, so forwards caused by it nest. Peers forward a new
	// record once and stop at the second receipt: depth 2. Faults are only
	// drawn for the first two levels, deeper forwards are always served, and a
	// chain that reaches depth 8 feeds itself: it is cut and reported.
	gid := goid()
	w.fwdMu.Lock()
	depth := w.fwdDepth[gid]
	w.fwdMu.Unlock()
	if depth >= 8 {
		w.FailLater(w.Prop+".wedge", "forward-loop", "one request caused a chain of %d nested server-to-server forwards (%s %s): the forwarding feeds itself and never ends", depth, req.Method, req.URL.Path)
		return nil, &netError{msg: "dial tcp " + req.URL.Host + ": connect: connection refused (simulation: forwarding loop cut)"}
	}
	act := HTTPAction{}
	if w.HTTPPolicy != nil && depth < 2 {
		act = w.HTTPPolicy("", host, req)
	}
	if n == nil || !n.Up || (n.HTTP != 0 && req.URL.Port() != strconv.Itoa(int(n.HTTP))) {
		if act.Kind == 0 {
			act.Kind = 1
		}
	}
	switch act.Kind {
	case 1:
		w.Fault("http.refused")
		return nil, &netError{msg: "dial tcp " + req.URL.Host + ": connect: connection refused"}
	case 2:
		w.Fault("http.timeout")
		time.Sleep(act.Delay)
		return nil, &netError{msg: "dial tcp " + req.URL.Host + ": i/o timeout", timeout: true}
	case 4:
		// The peer accepts the connection and never says anything: the caller
		// stays in its request until the world ends.
		w.Fault("http.silent")
		w.fwdMu.Lock()
		if w.Silent == nil && !w.silentDone {
			w.Silent = make(chan struct{})
		}
		ch := w.Silent
		w.fwdMu.Unlock()
		if ch != nil {
			<-ch
		}
		return nil, &netError{msg: "read tcp " + req.URL.Host + ": connection reset by peer"}
	case 3:
		w.Fault("http.503")
		return &http.Response{StatusCode: 503, Status: "503 Service Unavailable", Body: io.NopCloser(strings.NewReader("unavailable")), Header: http.Header{}, Request: req, Proto: "HTTP/1.1", ProtoMajor: 1, ProtoMinor: 1}, nil
	}
	var body []byte
	if req.Body != nil {
		body, _ = io.ReadAll(req.Body)
		req.Body.Close()
	}
	w.Probe("http.peer-served")
	w.fwdMu.Lock()
	w.fwdDepth[gid] = depth + 1
	w.fwdMu.Unlock()
	code, rb := n.serve(req.Method, req.URL.RequestURI(), body, req.Header)
	w.fwdMu.Lock()
	if depth == 0 {
		delete(w.fwdDepth, gid)
	} else {
		w.fwdDepth[gid] = depth
	}
	w.fwdMu.Unlock()
	if w.HTTPObserve != nil {
		w.HTTPObserve(n, req, body, code)
	}
	return &http.Response{StatusCode: code, Status: strconv.Itoa(code) + " " + http.StatusText(code), Body: io.NopCloser(bytes.NewReader(rb)), Header: http.Header{}, Request: req, Proto: "HTTP/1.1", ProtoMajor: 1, ProtoMinor: 1, ContentLength: int64(len(rb))}, nil
}

// ---- TCP fabric -------------------------------------------------------------

func (w *World) dial(network, address string) (net.Conn, error) {
	act := DialAction{}
	if w.DialPolicy != nil {
		act = w.DialPolicy(address)
	}
	n := w.nodeAt(address)
	if act.Serve == nil && (n == nil || !n.Up) {
		act.Kind = 1
	}
	if act.Kind == 1 {
		w.Fault("tcp.refused")
		return nil, &netError{msg: "dial tcp " + address + ": connect: connection refused"}
	}
	cli, srv := SimPipe()
	if act.Serve != nil {
		serve := act.Serve
		go func() {
			w.S.nameSelf(fmt.Sprintf("rogue#%d", w.taskSeq))
			defer w.S.forget()
			serve(srv)
		}()
	} else {
		s := n.S
		go func() {
			s.VerifHandleSyncConn(srv)
		}()
	}
	var c net.Conn = cli
	if act.Wrap != nil {
		c = act.Wrap(cli)
	}
	return c, nil
}

// firstRepoFrames shortens a stack to the lines that mention the repository.
func firstRepoFrames(stack string) string {
	var out []string
	lines := strings.Split(stack, "\n")
	for i, l := range lines {
		if strings.Contains(l, "gca-backend/") && !strings.Contains(l, "verif_on.go") {
			out = append(out, strings.TrimSpace(l))
			if i+1 < len(lines) && strings.HasPrefix(lines[i+1], "\t") {
				out = append(out, strings.TrimSpace(lines[i+1]))
			}
		}
		if len(out) >= 8 {
			break
		}
	}
	return strings.Join(out, "\n")
}

// TopRepoFunc returns the innermost repository function on a stack.
func TopRepoFunc(stack string) string {
	for _, l := range strings.Split(stack, "\n") {
		if strings.Contains(l, "gca-backend/") && !strings.HasPrefix(l, "\t") && !strings.Contains(l, "Verif") {
			l = strings.TrimSpace(l)
			if i := strings.LastIndex(l, "/"); i >= 0 {
				l = l[i+1:]
			}
			if i := strings.Index(l, "("); i > 0 && !strings.HasPrefix(l[i:], "(*") {
				l = l[:i]
			}
			if i := strings.LastIndex(l, "("); i > 0 && strings.HasSuffix(l, ")") && !strings.Contains(l[i:], "*") {
				l = l[:i]
			}
			return l
		}
	}
	return "unknown"
}
