//go:build test

package sim

// C11 - no server behaviour can crash, wedge or mislead the client. A real
// client with 1-5 configured servers; per run each server is honest (a real
// server node), down, flaky (a real node behind a faulty connection) or rogue
// (the harness answers with the server's real private key). The client's own
// send loop and sync cadence run; overlapping rounds happen by themselves.

import (
	"fmt"
	"net"
	"os"
	"strings"
	"sync"
	"time"

	"github.com/glowlabs-org/gca-backend/client"
	"github.com/glowlabs-org/gca-backend/glow"
	"github.com/glowlabs-org/gca-backend/server"
)

func init() {
	Register(&Property{
		ID:             "C11",
		Run:            runC11,
		Rule:           "runs = a real client with 1-5 servers, each honest / down / flaky (refuse, reset, short read, corrupted reply) / rogue (arbitrary byte strings of 0-65535 bytes, every length class around the fixed header sizes, correctly signed replies with inconsistent location lengths, hundreds of entries, GCA-signed ban entries, stale timestamps, foreign device keys, foreign GCA signatures, finite stalls), all-banned and all-failed configurations, client restarts, 100-400 client ticks so that rounds overlap; oracles at every quiescent point: client mutex free, ban knowledge monotone within a GCA epoch (state and gcaServers.dat, also across restart), no selection of a server the client knows to be banned (judged at the selection, site csync.predial: overlapping rounds may learn of a ban between a selection and its dial); after the adversarial phase new readings still produce datagrams and a new dial happens within 64 ticks; non-trivial = at least one rogue or flaky reply was processed and one round ended with every candidate failed; distinct = distinct decision signatures",
		Real:           []string{"client send loop, sync rounds (server selection, retry loop, merge, persistence, resend loop), reply parser, start-up server selection", "honest servers: real sync handler"},
		Stub:           []string{"rogue servers (harness, holding the server's real key)", "TCP/UDP (simulated fabric)"},
		Assumptions:    []string{"a stalled connection ends after a finite simulated time (the client has no read deadline of its own; an endless stall only blocks that one sync goroutine and, by design of the thread group, Close())"},
		RequiredProbes: []string{"c11.rogue.short", "c11.rogue.signed-short", "c11.rogue.bans", "c11.rogue.many-entries", "c11.rogue.bad-loclen", "c11.all-failed-round", "c11.all-banned", "c11.restart", "c11.liveness-checked", "c11.flaky", "c11.rogue.offset"},
		RequiredSites:  []string{"send.wake", "csync.wake", "csync.start", "csync.predial"},
	})
}

type c11Server struct {
	name string
	key  *KeyPair
	role string // honest, down, flaky, rogue
	node *ServerNode
	loc  string
	tcp  uint16
}

func runC11(m *Sim) {
	w := NewWorld(m)
	defer w.Shutdown()
	w.SeedRandom()
	gca := Key("gcaA")
	start := uint32(600 + m.C.Int("start", 1500))
	if m.C.Chance("late-start", 1, 3) {
		// A device whose readings lie more than one window past slot 0.
		start += 4032 + uint32(m.C.Int("later", 6000))
	}
	SetSlot(start)
	dev := &Device{Role: "dev0", ID: 10, Key: Key("dev0")}
	dev.Auth = StdAuth(gca, dev.ID, dev.Key, 1<<40)
	ns := 1 + m.C.Int("servers", 5)
	var srvs []*c11Server
	var nodes []*ServerNode
	for i := 0; i < ns; i++ {
		s := &c11Server{name: fmt.Sprintf("srv%d", i)}
		s.role = []string{"honest", "down", "flaky", "rogue", "rogue"}[m.C.Int("role", 5)]
		n := w.AddServer(s.name, "temp", true)
		s.key, s.loc, s.tcp, s.node = n.Key, n.Loc, n.TCP, n
		if s.role == "honest" || s.role == "flaky" {
			n.Boot()
			n.DoRegister(gca.Pub, n.Temp)
			n.DoAuthorize(dev.Auth)
		}
		srvs = append(srvs, s)
		nodes = append(nodes, n)
	}
	byLoc := map[string]*c11Server{}
	for _, s := range srvs {
		byLoc[s.loc] = s
	}
	// Honest servers know each other (their replies carry the list).
	entry := func(s *c11Server, banned bool) server.AuthorizedServer {
		return SignServer(gca, server.AuthorizedServer{PublicKey: s.key.Pub, Banned: banned, Location: s.loc, HttpPort: s.node.HTTP, TcpPort: s.tcp, UdpPort: s.node.UDP})
	}
	for _, s := range srvs {
		if s.node.Up {
			for _, o := range srvs {
				s.node.PostJSON("/api/v1/authorized-servers", entry(o, false))
			}
		}
	}
	cl := w.AddClient("cli0", dev, gca.Pub, nodes, start)
	if m.C.Chance("start-all-banned", 1, 12) {
		mm := map[glow.PublicKey]client.GCAServer{}
		for _, s := range srvs {
			mm[s.key.Pub] = client.GCAServer{Banned: true, Location: s.loc, TcpPort: s.tcp, UdpPort: s.node.UDP}
		}
		cl.WriteServerMap(mm)
		m.Probe("c11.all-banned")
	}
	emitted := 0
	w.UDPCapture = func(d *Datagram) { emitted++ }
	w.UDPPolicy = func(d *Datagram) UDPAction { return UDPAction(m.C.Weighted("udp", 3, 2)) }

	dials := 0
	rogueReplies := 0
	flakyFaults := 0
	adversarial := true
	// The client never SELECTS a server it knows to be banned. The selection
	// is made under the client's lock; right after it the round passes the
	// site csync.predial, where the choice is judged against what the client
	// knew at that moment. (Judging at the dial would be too strict: rounds
	// overlap, and another round may learn of the ban between this round's
	// selection and its dial.)
	var selMu sync.Mutex
	selectedBanned := map[int64]string{} // goroutine -> "" or the banned choice
	w.S.YieldFn = func(node, site string, owner interface{}) {
		if site != "csync.predial" || cl.C == nil || owner != interface{}(cl.C) {
			return
		}
		st := cl.C.VerifState()
		bad := ""
		if e, ok := st.Servers[st.PrimaryServer]; ok && e.Banned {
			bad = RoleOf(st.PrimaryServer)
		}
		selMu.Lock()
		selectedBanned[goid()] = bad
		selMu.Unlock()
	}
	w.DialPolicy = func(address string) DialAction {
		dials++
		w.Logf("dial %s adversarial=%v", address, adversarial)
		host := address
		if i := strings.LastIndex(address, ":"); i >= 0 {
			host = address[:i]
		}
		s := byLoc[host]
		selMu.Lock()
		bad, judged := selectedBanned[goid()]
		selMu.Unlock()
		if judged && bad != "" {
			m.FailLater("C11.banned-choice", "dial", "the client selected and dials %s (%s) although it knew that server to be banned when it made the choice", host, bad)
		}
		if s == nil {
			return DialAction{Kind: 1}
		}
		if !adversarial {
			if s.node.Up {
				return DialAction{}
			}
			return DialAction{Kind: 1}
		}
		switch s.role {
		case "down":
			return DialAction{Kind: 1}
		case "honest":
			return DialAction{}
		case "flaky":
			m.Probe("c11.flaky")
			switch m.C.Weighted("flaky", 2, 2, 2, 2, 2) {
			case 1:
				flakyFaults++
				return DialAction{Kind: 1}
			case 2:
				flakyFaults++
				m.Fault("tcp.reset")
				return DialAction{Serve: func(c net.Conn) { c.Close() }}
			case 3:
				flakyFaults++
				m.Fault("tcp.short")
				k := 1 + m.C.Int("cut", 700)
				return DialAction{Wrap: func(c net.Conn) net.Conn { return &cutConn{Conn: c, left: k} }}
			case 4:
				flakyFaults++
				m.Fault("tcp.corrupt")
				k := m.C.Int("flip-at", 700)
				return DialAction{Wrap: func(c net.Conn) net.Conn { return &flipConn{Conn: c, at: k} }}
			}
			return DialAction{}
		}
		// rogue: the harness answers, holding the server's real key.
		rogueReplies++
		reply, stall := c11RogueReply(m, w, s, srvs, dev, gca, entry)
		m.Fault("tcp.rogue-reply")
		return DialAction{Serve: func(c net.Conn) {
			var rq [4]byte
			c.Read(rq[:])
			if stall > 0 {
				time.Sleep(stall)
			}
			c.Write(reply)
			c.Close()
		}}
	}

	// ---- oracles evaluated at every tick --------------------------------------------
	bannedState := map[glow.PublicKey]bool{}
	bannedFile := map[glow.PublicKey]bool{}
	epoch := gca.Pub
	monotone := func(site string) {
		if cl.C == nil {
			return
		}
		st := cl.C.VerifState()
		if st.GCAPubKey != epoch {
			epoch = st.GCAPubKey
			bannedState = map[glow.PublicKey]bool{}
			bannedFile = map[glow.PublicKey]bool{}
		}
		for k := range bannedState {
			if e, ok := st.Servers[k]; !ok || !e.Banned {
				m.Fail("C11.ban-lost", site, "the client no longer knows that server %s is banned (entry present=%v)", RoleOf(k), ok)
			}
		}
		for k, e := range st.Servers {
			if e.Banned {
				bannedState[k] = true
			}
		}
		fm, err := cl.ServerMapFile()
		if err != nil {
			m.Fail("C11.ban-lost", site, "gcaServers.dat does not decode: %v", err)
		}
		for k := range bannedFile {
			if e, ok := fm[k]; !ok || !e.Banned {
				m.Fail("C11.ban-lost", site, "gcaServers.dat no longer records that server %s is banned", RoleOf(k))
			}
		}
		for k, e := range fm {
			if e.Banned {
				bannedFile[k] = true
			}
		}
		m.NoteState(len(st.Servers), len(bannedState), len(bannedFile), RoleOf(st.PrimaryServer))
	}

	startupChoice := func(site string) {
		st := cl.C.VerifState()
		usable := false
		for _, e := range st.Servers {
			if !e.Banned {
				usable = true
			}
		}
		if e, ok := st.Servers[st.PrimaryServer]; usable && (!ok || e.Banned) {
			m.Fail("C11.banned-choice", site, "at start-up the client chose %s as its primary server, which it knows to be banned (known=%v), although a non-banned server is configured", RoleOf(st.PrimaryServer), ok)
		}
	}
	// Swarm: a seeded subset of the client's between-critical-sections sites
	// parks too, so overlapping rounds and the send loop interleave at them.
	for _, site := range []string{"csync.predial", "csync.postdial", "csync.premerge", "csync.postmerge"} {
		if m.C.Chance("site-"+site, 1, 3) {
			w.S.EnableSites(site)
		}
	}
	if err := cl.Start(); err != nil {
		m.Fail("C11.start", "client", "client does not start: %v", err)
	}
	startupChoice("startup")
	slot := start
	ticks := 100 + m.C.Int("ticks", 300)
	for i := 0; i < ticks; i++ {
		if m.C.Chance("new-slot", 1, 3) {
			slot++
			SetSlot(slot)
			cl.MeterAppend(slot, "5100", 10)
		}
		if m.C.Chance("restart", 1, 150) {
			cl.Stop()
			if err := cl.Start(); err != nil {
				m.Fail("C11.start", "client-restart", "client does not restart: %v", err)
			}
			m.Probe("c11.restart")
			monotone("restart")
			startupChoice("restart")
		}
		w.Advance(62 * time.Millisecond)
		w.PumpUDP()
		monotone("tick")
		if i%8 == 0 && cl.C != nil {
			logs, _ := cl.C.EventLog.DumpLogEntries()
			for line := range logs {
				if strings.Contains(line, "no servers could be found") {
					m.Probe("c11.all-failed-round")
				}
			}
		}
		if time.Since(m.Start) > 80*time.Second {
			break
		}
	}
	if rogueReplies+flakyFaults > 0 && m.Probes["c11.all-failed-round"] > 0 {
		m.Probe("nontrivial")
	}

	// ---- after the adversarial phase: the loop still reports and syncs ------------
	adversarial = false
	w.Phase = "after-adversarial-phase"
	allBanned := true
	if cl.C != nil {
		for _, e := range cl.C.VerifState().Servers {
			if !e.Banned {
				allBanned = false
			}
		}
	}
	if cl.C != nil {
		st := cl.C.VerifState()
		var lines []string
		for k, e := range st.Servers {
			lines = append(lines, fmt.Sprintf("liveness phase: server %s banned=%v loc=%s", RoleOf(k), e.Banned, e.Location))
		}
		sortStrings(lines)
		for _, l := range lines {
			w.Logf("%s", l)
		}
		logs, order := cl.C.EventLog.DumpLogEntries()
		for _, l := range order {
			w.Logf("client log: %s x%d", l, len(logs[l]))
		}
	}
	e0, d0 := emitted, dials
	nlive := 64
	if os.Getenv("VERIF_DEBUG_C11") != "" {
		nlive = 200
	}
	for i := 0; i < nlive; i++ {
		slot++
		SetSlot(slot)
		cl.MeterAppend(slot, "6100", 10)
		w.Advance(63 * time.Millisecond)
		w.PumpUDP()
		monotone("liveness")
		// A reply that was still in flight when the adversarial phase ended
		// may ban the last usable server: from then on not dialling is right.
		if cl.C != nil {
			usable := false
			for _, e := range cl.C.VerifState().Servers {
				if !e.Banned {
					usable = true
				}
			}
			if !usable {
				allBanned = true
			}
		}
		if os.Getenv("VERIF_DEBUG_C11") != "" && i%10 == 0 {
			var names []string
			for _, p := range w.S.Parked(true) {
				names = append(names, p.Name+"@"+p.Site)
			}
			tail := w.ReleaseLog
			if len(tail) > 6 {
				tail = tail[len(tail)-6:]
			}
			fmt.Fprintf(os.Stderr, "DEBUG i=%d t=%v emitted=%d dials=%d parked=%v lastrel=%v\n", i, time.Since(m.Start), emitted, dials, names, tail)
			if i%50 == 0 {
				logs, order := cl.C.EventLog.DumpLogEntries()
				for _, l := range order {
					fmt.Fprintf(os.Stderr, "DEBUG   log: %s x%d\n", l, len(logs[l]))
				}
				st := cl.C.VerifState()
				fmt.Fprintf(os.Stderr, "DEBUG   state: primary=%s servers=%d\n", RoleOf(st.PrimaryServer), len(st.Servers))
				for k, e := range st.Servers {
					fmt.Fprintf(os.Stderr, "DEBUG   server %s %+v\n", RoleOf(k), e)
				}
			}
		}
		if time.Since(m.Start) > 100*time.Second {
			break
		}
	}
	m.Probe("c11.liveness-checked")
	if emitted == e0 {
		m.Fail("C11.stall", "reports", "after the adversarial phase 64 ticks with new readings produced no datagram: the reporting loop has stopped")
	}
	if dials == d0 && !allBanned && time.Since(m.Start) <= 100*time.Second {
		m.Fail("C11.stall", "sync", "after the adversarial phase the client did not try to sync again within 64 ticks")
	}
	if allBanned {
		m.Probe("c11.all-banned")
	}
}

// c11RogueReply builds one reply of a rogue server.
func c11RogueReply(m *Sim, w *World, s *c11Server, srvs []*c11Server, dev *Device, gca *KeyPair, entry func(*c11Server, bool) server.AuthorizedServer) ([]byte, time.Duration) {
	var none [4032]bool
	// Any bitfield and any window offset: honest servers stay close to the
	// clock, a rogue one does not have to.
	switch m.C.Int("bits", 3) {
	case 1:
		for i := range none {
			none[i] = true
		}
	case 2:
		for i := range none {
			none[i] = m.C.Int("bit", 2) == 1
		}
	}
	now := Slot()
	offs := []uint32{0, 0, now - 4031, now - 4032, now - 4033, now - 8000, now + 10, 1<<32 - 1, 2016 * (now / 2016), uint32(m.C.Int("off-any", 1<<20))}
	rogueOffset := offs[m.C.Int("rogue-offset", len(offs))]
	if rogueOffset != 0 {
		m.Probe("c11.rogue.offset")
	}
	tnow := uint64(time.Now().Unix())
	stall := time.Duration(0)
	if m.C.Chance("stall", 1, 10) {
		stall = time.Duration(1+m.C.Int("stall-ms", 3000)) * time.Millisecond
		m.Fault("tcp.stall")
	}
	signed := func(servers []server.AuthorizedServer) []byte {
		return SealSyncReply(EncodeSyncBody(dev.Key.Pub, rogueOffset, &none, glow.PublicKey{}, 0, servers, [64]byte{}), tnow, s.key)
	}
	switch m.C.Weighted("rogue", 3, 3, 3, 3, 2, 2, 2, 2, 2, 1) {
	case 0: // arbitrary bytes
		n := []int{0, 1, 2, 3, 70, 73, 137, 600, 713, 5000, 65535}[m.C.Int("rlen", 11)]
		b := make([]byte, n)
		for i := range b {
			b[i] = byte(m.C.Int("byte", 256))
		}
		m.Probe("c11.rogue.short")
		return b, stall
	case 1: // a length prefix announcing L and exactly, fewer or more bytes
		l := []int{0, 1, 71, 72, 135, 136, 575, 576, 711}[m.C.Int("plen", 9)]
		b := []byte{byte(l), byte(l >> 8)}
		b = append(b, make([]byte, l+m.C.Int("delta", 3)-1+1)...)
		m.Probe("c11.rogue.short")
		return b, stall
	case 2: // correctly signed but shorter than the fixed fields
		l := []int{0, 8, 64, 100, 500, 570}[m.C.Int("blen", 6)]
		m.Probe("c11.rogue.signed-short")
		return SealSyncReply(make([]byte, l), tnow, s.key), stall
	case 3: // a proper reply whose list bans other servers (GCA-signed bans)
		var list []server.AuthorizedServer
		for _, o := range srvs {
			e := entry(o, m.C.Chance("ban", 1, 3))
			if e.Banned && m.C.Chance("key-only-ban", 1, 3) {
				// a ban that names the key only
				e = SignServer(gca, server.AuthorizedServer{PublicKey: o.key.Pub, Banned: true})
				m.Probe("c11.rogue.key-only-ban")
			}
			list = append(list, e)
		}
		m.Probe("c11.rogue.bans")
		return signed(list), stall
	case 4: // un-ban attempt: replays of non-banned entries, also with another address
		var list []server.AuthorizedServer
		moved := m.C.Chance("unban-moved", 1, 2)
		for _, o := range srvs {
			e := entry(o, false)
			if moved {
				e = SignServer(gca, server.AuthorizedServer{PublicKey: o.key.Pub, Location: "moved.sim", HttpPort: 5, TcpPort: 5, UdpPort: 5})
			}
			list = append(list, e)
		}
		return signed(list), stall
	case 5: // hundreds of entries
		var list []server.AuthorizedServer
		e := entry(s, false)
		for i := 0; i < 100+m.C.Int("entries", 450); i++ {
			list = append(list, e)
		}
		m.Probe("c11.rogue.many-entries")
		b := signed(list)
		return b, stall
	case 6: // inconsistent location length inside a correctly signed reply
		body := EncodeSyncBody(dev.Key.Pub, 0, &none, glow.PublicKey{}, 0, []server.AuthorizedServer{entry(s, false)}, [64]byte{})
		body[576+33] = byte(m.C.Int("loclen", 256))
		m.Probe("c11.rogue.bad-loclen")
		return SealSyncReply(body, tnow, s.key), stall
	case 7: // entries with a foreign GCA signature, stale time, other device key
		switch m.C.Int("how", 3) {
		case 0:
			e := SignServer(Key("gcaB"), server.AuthorizedServer{PublicKey: Key("evil").Pub, Location: "evil.sim", TcpPort: 1})
			return signed([]server.AuthorizedServer{e}), stall
		case 1:
			return SealSyncReply(EncodeSyncBody(dev.Key.Pub, 0, &none, glow.PublicKey{}, 0, nil, [64]byte{}), tnow-90000, s.key), stall
		default:
			return SealSyncReply(EncodeSyncBody(Key("dev9").Pub, 0, &none, glow.PublicKey{}, 0, nil, [64]byte{}), tnow, s.key), stall
		}
	case 8: // migration order with a forged outer signature
		em := server.EquipmentMigration{Equipment: dev.Key.Pub, NewGCA: Key("gcaEvil").Pub, NewShortID: 666}
		em = SignMigration(Key("gcaEvil"), em)
		return SealSyncReply(EncodeSyncBody(dev.Key.Pub, 0, &none, em.NewGCA, em.NewShortID, nil, em.Signature), tnow, s.key), stall
	default: // a perfectly good, empty reply
		return signed(nil), stall
	}
}
