//go:build test

package sim

// C12 - no untrusted input or peer failure can crash or wedge the server.
// Hostile datagrams, TCP sessions and HTTP requests (all nine routes, every
// method, missing / garbage / huge query values, JSON bodies of wrong shape,
// extreme numbers, long strings) at every (now, offset) configuration incl.
// now-offset in 3600..4100 with the rotation thread stalled and during
// start-up catch-up; authorized peers refused / timing out / failing while
// authorizations and server posts are forwarded; idle and half-sent sync
// connections at shutdown.

import (
	"encoding/binary"
	"encoding/hex"
	"encoding/json"
	"fmt"
	"net"
	"net/http"
	"strings"
	"time"

	"github.com/glowlabs-org/gca-backend/glow"
	"github.com/glowlabs-org/gca-backend/server"
)

func init() {
	Register(&Property{
		ID:             "C12",
		Run:            runC12,
		Rule:           "runs = one (now, offset) configuration (incl. stalled rotation thread with now-offset up to 4500, restart with catch-up and traffic injected during the catch-up loop) x 40-200 hostile inputs (datagrams at window/acceptance edges, TCP sessions of 0-100 request bytes, HTTP requests over 9 routes x 5 methods x hostile queries and bodies incl. correctly signed structures with extreme fields) x peer fault policy (refused / timeout / 503 / served; at Close() possibly one forward hanging on a peer that accepted and never answers) x 0-6 idle or half-sent sync connections at Close(); after every input: no handler panic, a liveness probe is answered, every mutex is free; Close() must return within 2 x serverShutdownTime of simulated time; non-trivial = inputs of at least three families and one peer fault or idle connection; distinct = distinct decision signatures",
		Real:           []string{"all nine HTTP handlers incl. JSON decoding", "report handler", "sync handler incl. its connection reads", "forwarding to peers through http.Post", "NewGCAServer incl. catch-up loop", "Close()/thread group"},
		Stub:           []string{"kernel sockets and the three accept loops; net/http's own connection handling (which would swallow a handler panic) - handlers are called with a recover wrapper that is the panic witness", "NASA / WattTime services: unreachable (connection refused) in this flavour"},
		Assumptions:    []string{"GCA-signed authorizations never assign one public key to two live ids", "responses of the external NASA / WattTime services are not part of the untrusted inputs the property lists"},
		RequiredProbes: []string{"c12.stalled-late", "c12.catchup-traffic", "c12.idle-conn-at-close", "c12.peer-fault", "c12.http.hostile", "c12.tcp.partial", "c12.datagram.window-end", "c12.signed-extreme", "c12.silent-peer-at-close"},
		RequiredSites:  []string{"migrate.catchup", "listen.udp", "sync.between"},
	})
}

func runC12(m *Sim) {
	w := NewWorld(m)
	defer w.Shutdown()
	h := NewHist(w, "srv0", "C12")
	n := h.N
	SetSlot(uint32(m.C.Int("now0", 3000)))
	h.Boot()
	h.Setup(1 + m.C.Int("devices", 2))
	gca := h.GCA
	families := map[string]bool{}

	// Peers: real servers (up or down) plus one address nobody listens on.
	npeers := m.C.Int("peers", 3)
	var peers []*ServerNode
	for i := 0; i < npeers; i++ {
		p := w.AddServer(fmt.Sprintf("peer%d", i), "temp-peer", true)
		p.Boot()
		p.DoRegister(gca.Pub, p.Temp)
		peers = append(peers, p)
	}
	w.HTTPPolicy = func(from, to string, req *http.Request) HTTPAction {
		k := m.C.Weighted("peer-fault", 4, 2, 2, 1)
		if k == 2 && time.Since(m.Start) > 40*time.Second {
			k = 1 // keep the run inside the 120 s life of a test-build server
		}
		if k != 0 {
			m.Probe("c12.peer-fault")
			families["peer-fault"] = true
		}
		return HTTPAction{Kind: k, Delay: time.Duration(1+m.C.Int("timeout-ms", 400)) * time.Millisecond}
	}
	for i, p := range peers {
		as := SignServer(gca, server.AuthorizedServer{PublicKey: p.Key.Pub, Location: p.Loc, HttpPort: p.HTTP, TcpPort: p.TCP, UdpPort: p.UDP})
		n.PostJSON("/api/v1/authorized-servers", as)
		if m.C.Chance("peer-down", 1, 2) {
			peers[i].Stop()
		}
	}
	// The normal state of a fleet: a server is listed on itself too, and the
	// peers list each other (each post is gossiped on by its receiver).
	if m.C.Chance("self-listed", 1, 2) {
		n.PostJSON("/api/v1/authorized-servers", SignServer(gca, server.AuthorizedServer{PublicKey: n.Key.Pub, Location: n.Loc, HttpPort: n.HTTP, TcpPort: n.TCP, UdpPort: n.UDP}))
		m.Probe("c12.self-listed")
	}
	c12Fleet = append([]*ServerNode{n}, peers...)
	if m.C.Chance("ghost-peer", 1, 2) {
		as := SignServer(gca, server.AuthorizedServer{PublicKey: Key("ghost").Pub, Location: "ghost.sim", HttpPort: 1, TcpPort: 2, UdpPort: 3})
		n.PostJSON("/api/v1/authorized-servers", as)
	}

	// ---- configuration -----------------------------------------------------
	switch m.C.Weighted("config", 3, 3, 2) {
	case 1: // stalled rotation thread, late clock
		w.S.Hold(n.Name + ":migrate.wake")
		SetSlot(n.Model.Offset + uint32(3201+m.C.Int("late", 1300)))
		m.Probe("c12.stalled-late")
	case 2: // restart with catch-up; traffic arrives while start-up is rotating
		h.AfterRotations()
		SetSlot(n.Model.Offset + uint32(4000+m.C.Int("jump", 6000)))
		n.Stop()
		var half *server.GCAServer
		w.S.pointFn = func(node, site string, owner interface{}) {
			if site == "listen.udp" && node == n.Name {
				half, _ = owner.(*server.GCAServer)
			}
			h.point(node, site, owner)
		}
		w.S.EnableSites("migrate.catchup")
		w.OnPark = func(p *Parked) {
			if p.Site != "migrate.catchup" || half == nil {
				return
			}
			m.Probe("c12.catchup-traffic")
			d := h.Devs[0]
			snap := half.VerifSnapshot(true)
			for _, slot := range []uint32{snap.Offset + 4032, snap.Offset + 4031, Slot(), Slot() + 432, Slot() - 432} {
				b := SignedReport(d.Key, d.ID, slot, 500).Encode()
				t := w.Do("udp-during-catchup", func() { half.VerifHandleDatagram(b) })
				if t.Panic != nil {
					w.Fail("C12.panic", "datagram-during-catchup", "report handler panicked during start-up catch-up: %v\n%s", t.Panic, firstRepoFrames(t.Stack))
				}
			}
		}
		h.Rots = nil
		if err := n.Start(); err != nil {
			m.Fail("C12.start", "restart", "server does not restart: %v", err)
		}
		w.OnPark = nil
		w.S.DisableSites("migrate.catchup")
		w.S.pointFn = h.point
		// Reports accepted during catch-up are outside the model: rebuild it
		// loosely (C12 only needs liveness from here on).
		h.Rots = nil
		n.Model = nil
	}

	live := func(site string) {
		res := n.Request("GET", "/api/v1/equipment", nil)
		if res.Panic != nil {
			m.Fail("C12.panic", "liveness", "liveness probe panicked after %s: %v", site, res.Panic)
		}
		if res.Status != 200 {
			m.Fail("C12.unresponsive", site, "after %s the equipment endpoint answers %d", site, res.Status)
		}
		a, b, c := n.S.VerifTryLocks()
		if !a || !b || !c {
			m.Fail("C12.lock", site, "after %s a mutex is still held at a quiescent point (main=%v servers=%v limiter=%v)", site, a, b, c)
		}
	}

	// ---- hostile inputs ----------------------------------------------------
	routes := []string{"all-device-stats", "authorized-servers", "authorize-equipment", "equipment", "equipment-migrate", "register-gca", "recent-reports", "geo-stats", "archive"}
	methods := []string{"GET", "POST", "PUT", "DELETE", "HEAD"}
	var idle []net.Conn
	ninputs := 40 + m.C.Int("inputs", 80)
	if m.Tier == "thorough" {
		ninputs += m.C.Int("inputs-more", 200)
	}
	for i := 0; i < ninputs; i++ {
		site := ""
		switch m.C.Weighted("family", 4, 3, 8, 3) {
		case 0: // datagram
			families["datagram"] = true
			d := h.Devs[m.C.Int("dev", len(h.Devs))]
			off := n.Snap().Offset
			now := Slot()
			slots := []uint32{off + 4032, off + 4031, off, off - 1, now + 432, now - 432, now + 433, now, 0, 1<<32 - 1, off + 4033}
			k := m.C.Int("slot", len(slots))
			if k == 0 {
				m.Probe("c12.datagram.window-end")
			}
			power := []uint64{500, 2, 0, 1, 1 << 63, 1<<64 - 1, 1<<63 - 1}[m.C.Int("power", 7)]
			b := SignedReport(d.Key, d.ID, slots[k], power).Encode()
			switch m.C.Int("mangle", 4) {
			case 1:
				b = b[:m.C.Int("len", 80)]
			case 2:
				b = append(b, make([]byte, 1+m.C.Int("extra", 200))...)
			case 3:
				for j := range b {
					b[j] = byte(m.C.Int("byte", 256))
				}
			}
			n.Datagram(b)
			site = "datagram"
		case 1: // TCP session
			families["tcp"] = true
			var req []byte
			kind := m.C.Int("tcp", 6)
			switch kind {
			case 0:
				req = nil
			case 1:
				req = make([]byte, 1+m.C.Int("n", 3))
				m.Probe("c12.tcp.partial")
			case 2:
				req = binary.LittleEndian.AppendUint32(nil, 4242)
			case 3:
				req = binary.LittleEndian.AppendUint32(nil, h.Devs[0].ID)
			case 4:
				req = make([]byte, 100)
				for j := range req {
					req[j] = byte(m.C.Int("byte", 256))
				}
			case 5: // leave a connection idle or half sent
				if len(idle) < 6 {
					cli, srv := SimPipe()
					s := n.S
					go func() { s.VerifHandleSyncConn(srv) }()
					if m.C.Chance("half-sent", 1, 2) {
						t := w.Go("half-send", func() { cli.Write([]byte{1, 2}) })
						w.Finish(t)
					}
					w.Settle()
					idle = append(idle, cli)
					families["idle-conn"] = true
				}
				continue
			}
			_, pv, st := n.SyncSession(req)
			if pv != nil {
				m.Fail("C12.panic", "sync", "sync handler panicked: %v\n%s", pv, firstRepoFrames(st))
			}
			site = "tcp-session"
		case 2: // HTTP
			families["http"] = true
			m.Probe("c12.http.hostile")
			route := routes[m.C.Int("route", len(routes))]
			method := methods[m.C.Weighted("method", 4, 4, 1, 1, 1)]
			target := "/api/v1/" + route + c12Query(m, h, route)
			body := c12Body(m, h, route, gca)
			if method == "GET" && route == "archive" && m.C.Chance("archive-nobody", 3, 4) {
				body = nil
			}
			res := n.Request(method, target, body)
			if res.Panic != nil {
				m.Fail("C12.panic", route, "%s %s panicked: %v\n%s", method, target, res.Panic, firstRepoFrames(res.Stack))
			}
			site = method + " " + route
			m.Sig = append(m.Sig, fmt.Sprintf("h:%s/%s/%d", method, route, res.Status))
		case 3: // clock movement / time passing
			if m.C.Chance("time", 1, 2) {
				w.Advance(time.Duration(10+m.C.Int("ms", 150)) * time.Millisecond)
			} else if !w.S.hold[n.Name+":migrate.wake"] {
				SetSlot(Slot() + uint32(m.C.Int("adv", 50)))
			}
			site = "time"
		}
		live(site)
	}
	if len(families) >= 4 {
		m.Probe("nontrivial")
	}

	// ---- a forward that hangs on a silent peer while the server shuts down --------
	silentForwards := 0
	if m.C.Chance("silent-peer-at-close", 1, 3) {
		// A live peer is listed (or the server itself); the next forward to it is
		// accepted and never answered. The request that forwards stays in
		// flight; Close() must still return in bounded time.
		n.PostJSON("/api/v1/authorized-servers", SignServer(gca, server.AuthorizedServer{PublicKey: Key("silent-peer").Pub, Location: n.Loc, HttpPort: n.HTTP, TcpPort: n.TCP, UdpPort: n.UDP}))
		w.HTTPPolicy = func(from, to string, req *http.Request) HTTPAction { return HTTPAction{Kind: 4} }
		d := &Device{Role: "late-dev", ID: h.NextID + 500, Key: Key("late-dev")}
		body, _ := json.Marshal(StdAuth(gca, d.ID, d.Key, 1000))
		n.RequestAsync("auth-silent", "POST", "/api/v1/authorize-equipment", body, &HTTPResult{})
		w.Settle()
		silentForwards = m.Faults["http.silent"]
		if silentForwards > 0 {
			m.Probe("c12.silent-peer-at-close")
		}
	}
	// ---- shutdown with idle connections -----------------------------------
	if len(idle) > 0 {
		m.Probe("c12.idle-conn-at-close")
	}
	w.Phase = "close-with-idle-connections"
	s := n.S
	n.Up = false
	w.S.Unhold(n.Name + ":migrate.wake")
	closeTask := w.Go("close@srv0", func() { s.Close() })
	bound := 2 * server.VerifConsts().ShutdownTime
	t0 := time.Now()
	for !closeTask.Done() && time.Since(t0) <= bound {
		w.Advance(100 * time.Millisecond)
	}
	if !closeTask.Done() {
		m.Fail("C12.close", fmt.Sprintf("idle=%d/silent=%d", min(len(idle), 1), min(silentForwards, 1)), "Close() has not returned %v of simulated time after it was called with %d idle or half-sent sync connections open and %d forwards waiting for a peer that never answers (bound 2 x serverShutdownTime)", bound, len(idle), silentForwards)
	}
	if closeTask.Panic != nil {
		m.Fail("C12.panic", "close", "Close panicked: %v\n%s", closeTask.Panic, closeTask.Stack)
	}
	for _, c := range idle {
		c.Close()
	}
	w.Settle()
	n.S = nil
}

func c12Query(m *Sim, h *Hist, route string) string {
	var parts []string
	switch route {
	case "all-device-stats":
		off := h.N.Snap().Offset
		vals := []string{"", "0", fmt.Sprint(off), fmt.Sprint(off + 2016), fmt.Sprint(off + 4032), "4294965280", "4294967295", "abc", "-1", "99999999999999999999", "2016", "1", fmt.Sprint(uint32(off - 2016))}
		v := vals[m.C.Int("tso", len(vals))]
		if v != "" || m.C.Chance("empty-param", 1, 2) {
			parts = append(parts, "timeslot_offset="+v)
		}
		if m.C.Chance("fneg", 1, 3) {
			parts = append(parts, "insert_false_negatives="+[]string{"true", "1", ""}[m.C.Int("fnegv", 3)])
		}
	case "recent-reports":
		vals := []string{"", "zz", strings.Repeat("a", 63), strings.Repeat("0", 64), hex.EncodeToString(h.Devs[0].Key.Pub[:]), strings.Repeat("f", 66), hex.EncodeToString(Key("nobody").Pub[:])}
		parts = append(parts, "publicKey="+vals[m.C.Int("pk", len(vals))])
	case "geo-stats":
		vals := []string{"", "0", "91", "-181", "NaN", "1e400", "Inf", "abc", "38.5"}
		parts = append(parts, "latitude="+vals[m.C.Int("lat", len(vals))], "longitude="+vals[m.C.Int("long", len(vals))])
	default:
		if m.C.Chance("junk-query", 1, 4) {
			parts = append(parts, "x=%00&y="+strings.Repeat("z", m.C.Int("zl", 300)))
		}
	}
	if len(parts) == 0 {
		return ""
	}
	return "?" + strings.Join(parts, "&")
}

// c12Fleet is the server under test and its peers (set per run).
var c12Fleet []*ServerNode

func c12Body(m *Sim, h *Hist, route string, gca *KeyPair) []byte {
	switch m.C.Weighted("body", 3, 2, 2, 4) {
	case 0:
		return nil
	case 1:
		return []byte([]string{"", "{", "null", "[]", "{}", "\"x\"", "0", "{\"ShortID\":\"a\"}", "{\"PublicKey\":[1,2,3]}", "{\"Capacity\":1e400}", "{\"ShortID\":-1}", "{\"NewServers\":[null,{}]}", "{\"Location\":" + strings.Repeat("[", 200) + "}"}[m.C.Int("junk", 13)])
	case 2:
		b := make([]byte, m.C.Int("blen", 400))
		for i := range b {
			b[i] = byte(m.C.Int("byte", 256))
		}
		return b
	}
	// Structurally valid, correctly signed, extreme field values.
	m.Probe("c12.signed-extreme")
	switch route {
	case "authorize-equipment":
		id := []uint32{0, 1<<32 - 1, h.NextID + 50, h.Devs[0].ID}[m.C.Int("id", 4)]
		// One key per id: the GCA assigning one key to two live ids is
		// outside the listed input space (recorded assumption).
		a := glow.EquipmentAuthorization{ShortID: id, PublicKey: Key(fmt.Sprintf("x-id%d", id)).Pub,
			Latitude: []float64{0, 90, -1e308, 5e-324}[m.C.Int("lat", 4)], Longitude: []float64{0, 180, 1e308}[m.C.Int("long", 3)],
			Capacity: []uint64{0, 1<<64 - 1, 1 << 63}[m.C.Int("cap", 3)], Debt: 1<<64 - 1, Expiration: 1<<32 - 1, Initialization: 1<<32 - 1, ProtocolFee: 1<<64 - 1}
		b, _ := json.Marshal(SignAuth(gca, a))
		return b
	case "authorized-servers":
		if len(c12Fleet) > 0 && m.C.Chance("fleet-member", 1, 2) {
			// An order about a server of the fleet with its real address: bans,
			// replays of the original authorization, repeated bans.
			f := c12Fleet[m.C.Int("member", len(c12Fleet))]
			b, _ := json.Marshal(SignServer(gca, server.AuthorizedServer{PublicKey: f.Key.Pub, Banned: m.C.Chance("ban-member", 1, 2), Location: f.Loc, HttpPort: f.HTTP, TcpPort: f.TCP, UdpPort: f.UDP}))
			m.Probe("c12.fleet-order")
			return b
		}
		as := server.AuthorizedServer{PublicKey: Key(fmt.Sprintf("s%d", m.C.Int("k", 4))).Pub, Banned: m.C.Chance("banned", 1, 3),
			Location: []string{"", "x.sim", strings.Repeat("l", 255), strings.Repeat("L", 256), strings.Repeat("L", 700), "a b\x00c", "[::1]"}[m.C.Int("loc", 7)],
			HttpPort: uint16(m.C.Int("port", 1<<16)), TcpPort: 65535, UdpPort: 0}
		b, _ := json.Marshal(SignServer(gca, as))
		return b
	case "equipment-migrate":
		em := server.EquipmentMigration{Equipment: h.Devs[0].Key.Pub, NewGCA: Key("gcaNew").Pub, NewShortID: 1<<32 - 1}
		k := m.C.Int("newservers", 40)
		for i := 0; i < k; i++ {
			em.NewServers = append(em.NewServers, SignServer(Key("gcaNew"), server.AuthorizedServer{PublicKey: Key(fmt.Sprintf("ns%d", i)).Pub, Location: strings.Repeat("m", m.C.Int("ll", 300)), HttpPort: 1}))
		}
		b, _ := json.Marshal(SignMigration(gca, em))
		return b
	case "register-gca":
		reg := server.GCARegistration{GCAKey: Key("gcaZ").Pub}
		reg.Signature = glow.Sign(RegistrationSigningBytes(reg.GCAKey), h.N.Temp.Priv)
		b, _ := json.Marshal(reg)
		return b
	}
	return []byte("{}")
}
