//go:build test

package sim

// C09 - a device never signs two different reports for the same timeslot.
// Real client, a meter performing seeded edit sequences on energy_data.csv
// (append, rewrite a value, duplicate a timestamp with another value, reorder,
// malformed lines, header variants, truncate-then-write with a client read in
// between), client restarts, a UDP sink capturing everything, sync rounds
// against a server that received nothing (so everything is retransmitted).
// Then the history store itself, through its save/load wrappers, against a
// map model.

import (
	"encoding/binary"
	"fmt"
	"os"
	"path/filepath"
	"time"

	"github.com/glowlabs-org/gca-backend/client"
)

func init() {
	Register(&Property{
		ID:             "C09",
		Run:            runC09,
		Rule:           "runs = 10-60 seeded edits of the energy file (append / rewrite / duplicate timestamp / reorder / malformed / header variants / truncate-then-write) interleaved with client ticks, restarts and sync rounds whose retransmissions cover every stored slot; every acted-on datagram is captured: all datagrams of one slot must be identical and carry the stored first reading; stored readings never change; then 20-60 save/load operations on the history store (slots before the origin, at it, far beyond the file end, at the 32 bit offset wrap, value 0) against a map model; readings that do not fit 32 signed bits are a separate generator class (1 run in 10); non-trivial = a rewritten or duplicated reading was refused and a retransmission happened; distinct = distinct decision signatures",
		Real:           []string{"client energy file reader, history store, send loop, sync round incl. resend loop", "server sync handler"},
		Stub:           []string{"meter firmware (harness edits energy_data.csv)", "UDP (sink: every datagram captured and dropped)"},
		RequiredProbes: []string{"c09.rewrite-refused", "c09.retransmission", "c09.restart", "c09.truncate-then-write", "c09.store.before-origin", "c09.store.far", "c09.store.wrap", "c09.store.different-refused"},
		RequiredSites:  []string{"send.wake", "csync.resend"},
	})
}

func runC09(m *Sim) {
	w := NewWorld(m)
	defer w.Shutdown()
	w.SeedRandom()
	gca := Key("gcaA")
	start := uint32(600 + m.C.Int("start", 1500))
	SetSlot(start)
	dev := &Device{Role: "dev0", ID: 10, Key: Key("dev0")}
	dev.Auth = StdAuth(gca, dev.ID, dev.Key, 1<<40)
	n := w.AddServer("srv0", "temp", true)
	n.Boot()
	n.DoRegister(gca.Pub, n.Temp)
	n.DoAuthorize(dev.Auth)
	origin := start - uint32(m.C.Int("origin-back", 3))
	cl := w.AddClient("cli0", dev, gca.Pub, []*ServerNode{n}, origin)
	// Calibration of the current transformer: the installer's file, or none
	// (defaults). Large dividers scale small real readings down to the
	// reserved values 0 and 1, which the server does not act on.
	if k := m.C.Weighted("calibration", 3, 1, 1, 1, 1); k > 0 {
		cal := []string{"", "1\n100\n", "-1\n1\n", "3\n7\n", "1\n100000\n"}[k]
		must(os.WriteFile(filepath.Join(cl.Dir, client.CTSettingsFile), []byte(cal), 0644))
		m.Probe("c09.calibration-file")
	}
	wide := m.C.Chance("wide-class", 1, 10)
	cap := &c08Capture{first: map[uint32][]byte{}, count: map[uint32]int{}}
	// The known-finding class "wide" is decided by the input: timeslots for
	// which the meter ever wrote a reading outside the 32 bit signed range.
	wideSlots := map[uint32]bool{}
	// Every emitted datagram is captured, then lost: the server never holds
	// anything, so every sync round retransmits everything it may.
	w.UDPCapture = func(d *Datagram) {
		r, ok := DecodeReport(d.Data)
		if !ok || r.Power == 0 || r.Power == 1 {
			return
		}
		// The known-finding class "wide" is decided by the reading itself: the
		// value first sent live for the slot does not fit 32 signed bits.
		site := "datagram"
		if wideSlots[r.Slot] {
			site = "wide"
		}
		cap.count[r.Slot]++
		if cap.count[r.Slot] > 1 {
			m.Probe("c09.retransmission")
		}
		if f, seen := cap.first[r.Slot]; seen {
			r0, _ := DecodeReport(f)
			if string(f) != string(d.Data) {
				m.FailLater("C09.identity", site, "two different datagrams were emitted for timeslot %d: power %d, later %d", r.Slot, r0.Power, r.Power)
			}
		} else {
			cap.first[r.Slot] = append([]byte{}, d.Data...)
		}
		// The value is the one derived from the first reading the history
		// accepted for the slot.
		hv := cl.HistoryValue(r.Slot)
		if hv == 0 || uint32(r.Power) != hv {
			m.FailLater("C09.first", site, "datagram for timeslot %d carries %d but the history holds %d for that slot", r.Slot, r.Power, hv)
		}
		if r.Power != uint64(int64(int32(hv))) {
			m.FailLater("C09.first", site, "datagram for timeslot %d carries %d, which is not the stored reading %d sign-extended", r.Slot, r.Power, hv)
		}
	}
	w.UDPPolicy = func(d *Datagram) UDPAction { return UDPDrop }
	if err := cl.Start(); err != nil {
		m.Fail("C09.start", "client", "client does not start: %v", err)
	}

	stored := map[uint32]uint32{} // slot -> first non-zero stored value observed
	slotsSeen := map[uint32]bool{}
	checkStored := func(site string) {
		for _, s := range mapKeysU32(slotsSeen) {
			v := cl.HistoryValue(s)
			if old, ok := stored[s]; ok {
				if v != old {
					m.Fail("C09.store", site, "the stored reading of timeslot %d changed from %d to %d", s, old, v)
				}
			} else if v != 0 {
				stored[s] = v
			}
		}
	}
	readings := []string{"5100", "77000.5", "-300", "-51000.25", "10", "error", "2147483", "-2147483", "6000", "50", "150", "-99"}
	if wide {
		readings = append(readings, "3000000000", "-2200000000", "5000000000000")
	}
	nNarrow := len(readings)
	if wide {
		nNarrow -= 3
	}
	pickReading := func(t int64) string {
		k := m.C.Int("reading", len(readings))
		if k >= nNarrow && t >= int64(BubbleEpoch) {
			wideSlots[uint32((t-int64(BubbleEpoch))/300)] = true
		}
		return readings[k]
	}
	slot := start
	edits := 10 + m.C.Int("edits", 50)
	for i := 0; i < edits; i++ {
		rows := append([]string{}, cl.Rows...)
		ts := func(s uint32) int64 { return int64(BubbleEpoch) + int64(s)*300 + int64(m.C.Int("sec", 300)) }
		switch m.C.Weighted("edit", 8, 3, 3, 2, 2, 2, 2, 1, 1) {
		case 0: // a new reading
			slot++
			SetSlot(slot)
			slotsSeen[slot] = true
			tt := ts(slot)
			rows = append(rows, fmt.Sprintf("%d,%s", tt, pickReading(tt)))
		case 1: // the meter rewrites an earlier value
			if len(rows) > 0 {
				k := m.C.Int("row", len(rows))
				var t int64
				fmt.Sscanf(rows[k], "%d,", &t)
				rows[k] = fmt.Sprintf("%d,%s", t, pickReading(t))
				m.Probe("c09.rewrite")
			}
		case 2: // a second row for an existing timeslot with another value
			if len(rows) > 0 {
				k := m.C.Int("row", len(rows))
				var t int64
				fmt.Sscanf(rows[k], "%d,", &t)
				rows = append(rows, fmt.Sprintf("%d,%s", t+1, pickReading(t+1)))
				m.Probe("c09.rewrite")
			}
		case 3: // reorder
			p := m.C.Perm("perm", len(rows))
			nr := make([]string, len(rows))
			for a, b := range p {
				nr[a] = rows[b]
			}
			rows = nr
		case 4: // malformed line somewhere
			junk := []string{"garbage", "12,34,56", "\"unterminated,1", ",", "timestamp,energy", "1e99,5", "-5,100"}[m.C.Int("junk", 7)]
			k := m.C.Int("at", len(rows)+1)
			rows = append(rows[:k], append([]string{junk}, rows[k:]...)...)
		case 5: // header variants
			cl.Header = []string{"timestamp,energy (mWh)", "", "time,value", "timestamp"}[m.C.Int("header", 4)]
		case 6: // rows outside the history range
			if m.C.Chance("before-origin", 1, 2) {
				rows = append(rows, fmt.Sprintf("%d,%s", ts(origin-1-uint32(m.C.Int("back", 5))), "7000"))
			} else {
				far := slot + 1000 + uint32(m.C.Int("far", 100000))
				slotsSeen[far] = true
				rows = append(rows, fmt.Sprintf("%d,%s", ts(far), "8000"))
			}
		case 7: // truncate-then-write: the client reads the empty file in between
			must(os.WriteFile(filepath.Join(cl.Dir, "energy_data.csv"), nil, 0644))
			w.Advance(65 * time.Millisecond)
			m.Probe("c09.truncate-then-write")
		case 8: // client restart
			cl.Stop()
			if err := cl.Start(); err != nil {
				m.Fail("C09.start", "client-restart", "client does not restart: %v", err)
			}
			m.Probe("c09.restart")
		}
		cl.MeterRewrite(rows)
		if m.C.Chance("tick", 3, 4) {
			w.Advance(time.Duration(62+m.C.Int("ms", 70)) * time.Millisecond)
			w.PumpUDP()
			checkStored("tick")
		}
		if m.C.Chance("sync", 1, 8) && cl.Up {
			latest := slot
			t := w.Do("sync-round", func() { cl.C.VerifSyncRound(latest) })
			if t.Panic != nil {
				m.Fail("C09.panic", "sync-round", "sync round panicked: %v\n%s", t.Panic, firstRepoFrames(t.Stack))
			}
			w.PumpUDP()
			checkStored("sync")
		}
	}
	w.Advance(130 * time.Millisecond)
	w.PumpUDP()
	if cl.Up {
		latest := slot
		w.Do("sync-round", func() { cl.C.VerifSyncRound(latest) })
		w.PumpUDP()
	}
	checkStored("final")
	m.NoteState(len(stored), len(cap.first), len(wideSlots))
	refused := 0
	for s, f := range cap.first {
		r, _ := DecodeReport(f)
		_ = r
		_ = s
	}
	if m.Probes["c09.rewrite"] > 0 && m.Probes["c09.retransmission"] > 0 {
		m.Probe("c09.rewrite-refused")
		m.Probe("nontrivial")
	}
	_ = refused

	// ---- the history store itself -----------------------------------------
	if !cl.Up {
		if err := cl.Start(); err != nil {
			m.Fail("C09.start", "client-restart", "client does not restart: %v", err)
		}
	}
	// Stop the loops from touching the file while the store is probed: the
	// wrappers are called by the driver with the client idle (no time passes).
	model := map[uint32]uint32{}
	if raw := cl.HistoryFile(); len(raw) >= 4 {
		// Everything the meter phase stored (the file is small here: the far
		// rows of that phase are at most some 100000 slots past the origin).
		for off := 4; off+4 <= len(raw); off += 4 {
			if v := binary.LittleEndian.Uint32(raw[off:]); v != 0 {
				model[origin+uint32(off/4-1)] = v
			}
		}
	}
	header := func() uint32 {
		f, err := os.Open(filepath.Join(cl.Dir, client.HistoryFile))
		must(err)
		defer f.Close()
		var b [4]byte
		f.ReadAt(b[:], 0)
		return binary.LittleEndian.Uint32(b[:])
	}
	slotChoices := func() uint32 {
		switch m.C.Weighted("store-slot", 4, 2, 2, 2, 1, 1, 1) {
		case 0:
			return start + uint32(m.C.Int("near", 60))
		case 1:
			m.Probe("c09.store.before-origin")
			return origin - 1 - uint32(m.C.Int("back", 10))
		case 2:
			return origin + uint32(m.C.Int("at", 2))
		case 3:
			m.Probe("c09.store.far")
			return slot + 5000 + uint32(m.C.Int("far", 200000))
		case 4:
			m.Probe("c09.store.wrap")
			return origin + 1<<30 - 2 + uint32(m.C.Int("wrap", 3))
		case 5:
			return 1<<32 - 1 - uint32(m.C.Int("top", 2))
		default:
			return origin + 1<<31 + uint32(m.C.Int("half", 2))
		}
	}
	nstore := 20 + m.C.Int("store-ops", 40)
	for i := 0; i < nstore; i++ {
		s := slotChoices()
		if m.C.Chance("load", 1, 3) {
			v, err := cl.C.VerifLoadReading(s)
			want := model[s]
			if err != nil || v != want {
				m.Fail("C09.store", "load", "load of timeslot %d (origin %d) returned (%d, %v), the store should hold %d", s, origin, v, err, want)
			}
			continue
		}
		v := []uint32{5100, 6000, 0, 1<<32 - 300, 2, 1}[m.C.Int("store-value", 6)]
		err := cl.C.VerifSaveReading(s, v)
		switch {
		case s < origin:
			if err == nil {
				m.Fail("C09.store", "before-origin", "saving timeslot %d before the history origin %d was accepted", s, origin)
			}
		case model[s] == v:
			if err != nil {
				m.Fail("C09.store", "same", "re-saving the stored value %d for timeslot %d failed: %v", v, s, err)
			}
		case model[s] != 0:
			if err == nil {
				m.Fail("C09.store", "different", "a different value (%d) for timeslot %d, which holds %d, was accepted", v, s, model[s])
			}
			m.Probe("c09.store.different-refused")
		default:
			if err == nil {
				model[s] = v
			}
			// A refusal of an in-range slot is allowed (refused rather than
			// misplaced), a silent misplacement is not: checked below.
		}
		if h := header(); h != origin {
			m.Fail("C09.store", "misplaced", "saving timeslot %d (origin %d, value %d) overwrote the history origin: it now reads %d", s, origin, v, h)
		}
		for _, os := range mapKeysU32(model) {
			ov := model[os]
			got, lerr := cl.C.VerifLoadReading(os)
			if lerr != nil || got != ov {
				m.Fail("C09.store", "misplaced", "after saving timeslot %d (value %d) the reading of timeslot %d reads (%d, %v) instead of %d", s, v, os, got, lerr, ov)
			}
		}
	}
}
