//go:build test

package sim

import (
	"strings"
	"testing"
)

// A call that another thread's event interrupts is logged in two parts, and
// the tail of the resumed part is padded. Both parts must come back as one
// call (a session lost such calls and with them the files they created).
func TestParseStraceResumed(t *testing.T) {
	log := `100 mkdirat(AT_FDCWD</w>, "\x2f\x72\x2f\x73", 0755) = 0
100 openat(AT_FDCWD</w>, "\x2f\x72\x2f\x73\x2f\x6b", O_WRONLY|O_CREAT|O_TRUNC|O_CLOEXEC, 0644 <unfinished ...>
101 write(7<anon_inode:[eventfd]>, "\x01", 8 <unfinished ...>
100 <... openat resumed>)             = 8<\x2f\x72\x2f\x73\x2f\x6b>
100 write(8<\x2f\x72\x2f\x73\x2f\x6b>, "\x61\x62\x63", 3 <unfinished ...>
101 <... write resumed>)              = 8
100 <... write resumed>)              = 3
`
	ops, err := ParseStrace(strings.NewReader(log), "/r/s", "/r/MARK")
	if err != nil {
		t.Fatal(err)
	}
	var got []string
	for _, o := range ops {
		got = append(got, o.String())
	}
	want := []string{"mkdir .", "create k", "trunc k", "write 3 bytes at 0 to k"}
	if strings.Join(got, "; ") != strings.Join(want, "; ") {
		t.Fatalf("parsed %q, want %q", got, want)
	}
}
