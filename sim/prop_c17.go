//go:build test

package sim

// C17 - server lists and GCA migration follow the GCA's signatures; bans are
// monotone. Server side: sequences of server-authorization posts to 1-3
// mutually forwarding real servers with peers up or down; every post a server
// handles (direct or forwarded by a peer through the fabric) is applied to that
// server's list model. Client side: sync rounds against real servers carrying
// those lists and GCA-signed migration orders, and against a rogue server that
// holds a configured server's key; client restarts in between.

import (
	"bytes"
	"encoding/binary"
	"encoding/json"
	"fmt"
	"io"
	"net"
	"net/http"
	"os"
	"path/filepath"
	"reflect"
	"strings"
	"time"

	"github.com/glowlabs-org/gca-backend/client"
	"github.com/glowlabs-org/gca-backend/glow"
	"github.com/glowlabs-org/gca-backend/server"
)

func init() {
	Register(&Property{
		ID:             "C17",
		Run:            runC17,
		Rule:           "runs = 10-40 server-authorization posts (new, duplicate with changed ports or location, ban, un-ban attempt, bad / foreign signature, before registration) to 1-3 mutually forwarding servers with peers up or down, each server's list compared with its model after every post; then 6-20 client sync rounds (a fifth of them an overlapping pair with a ban posted in between) against real servers (lists, GCA-signed bans that repeat the address / name the key only / name another address, GCA-signed migration orders with usable, banned-only or empty new lists and orders naming the current GCA) and a rogue server (orders for another device, outer signature by a foreign or the new GCA, inner signatures by the old GCA, replays of non-banned entries, valid relayed orders) with client restarts; after every round - successful or failed - the client's GCA, id and server map are compared with the model of the signature rules, the three files must decode to exactly the adopted state and a restart must resume with it; non-trivial = at least one ban was learned and one migration order (valid or forged) was presented; distinct = distinct decision signatures",
		Real:           []string{"AuthorizedServersHandler GET/POST incl. forwarding to peers", "EquipmentMigrateHandler", "sync handler", "client sync round: parser, merge, migration adoption, persistence; client start-up load"},
		Stub:           []string{"rogue server (harness, holding a configured server's key)", "TCP/HTTP (simulated fabric)"},
		RequiredProbes: []string{"c17.srv.ban", "c17.srv.unban-attempt", "c17.srv.changed-ports", "c17.srv.forwarded", "c17.cli.ban-learned", "c17.cli.migration-adopted", "c17.cli.forged-order", "c17.cli.restart", "c17.cli.unban-replay", "c17.cli.forged-dup-entry", "c17.srv.altered-after-signing", "c17.cli.order-without-usable-server", "c17.cli.key-only-ban", "c17.cli.order-to-same-gca", "c17.cli.rogue-in-new-list", "c17.srv.order-with-bad-inner-entry", "c17.cli.overlapping-rounds"},
		RequiredSites:  []string{"srvauth.between", "csync.premerge", "csync.postmerge"},
	})
}

type c17Client struct {
	gca     glow.PublicKey
	id      uint32
	servers map[glow.PublicKey]client.GCAServer
}

func runC17(m *Sim) {
	w := NewWorld(m)
	defer w.Shutdown()
	w.SeedRandom()
	gca := Key("gcaA")
	newGCA := Key("gcaNew")
	SetSlot(uint32(600 + m.C.Int("start", 1500)))
	dev := &Device{Role: "dev0", ID: 10, Key: Key("dev0")}
	dev.Auth = StdAuth(gca, dev.ID, dev.Key, 1<<40)
	other := &Device{Role: "dev1", ID: 11, Key: Key("dev1")}
	other.Auth = StdAuth(gca, other.ID, other.Key, 1000)

	ns := 1 + m.C.Int("servers", 3)
	var nodes []*ServerNode
	lateRegister := m.C.Chance("post-before-registration", 1, 4)
	for i := 0; i < ns; i++ {
		n := w.AddServer(fmt.Sprintf("srv%d", i), "temp", true)
		n.Boot()
		if !lateRegister {
			n.DoRegister(gca.Pub, n.Temp)
			n.DoAuthorize(dev.Auth)
			n.DoAuthorize(other.Auth)
		}
		nodes = append(nodes, n)
	}
	// Forwarded posts are applied to the model of the server that handles them.
	w.HTTPObserve = func(to *ServerNode, req *http.Request, body []byte, status int) {
		switch req.URL.Path {
		case "/api/v1/authorized-servers":
			if req.Method != "POST" {
				return
			}
			var as server.AuthorizedServer
			if json.Unmarshal(body, &as) == nil {
				want := to.Model.AuthorizeServer(as)
				if (status == 200) != want {
					w.FailLater("C17.srv-model", "forwarded", "forwarded server authorization for %s at %s: status %d, model accepts=%v", RoleOf(as.PublicKey), to.Name, status, want)
				}
				m.Probe("c17.srv.forwarded")
			}
		case "/api/v1/authorize-equipment":
			var a glow.EquipmentAuthorization
			if json.Unmarshal(body, &a) == nil {
				to.Model.Authorize(a)
			}
		}
	}
	w.HTTPPolicy = func(from, to string, req *http.Request) HTTPAction {
		return HTTPAction{Kind: m.C.Weighted("peer-fault", 6, 1, 1), Delay: 50 * time.Millisecond}
	}
	entry := func(n *ServerNode, banned bool) server.AuthorizedServer {
		return SignServer(gca, server.AuthorizedServer{PublicKey: n.Key.Pub, Banned: banned, Location: n.Loc, HttpPort: n.HTTP, TcpPort: n.TCP, UdpPort: n.UDP})
	}
	checkLists := func(site string) {
		for _, n := range nodes {
			if n.Up {
				n.CheckServers("C17.srv-model")
			}
		}
	}

	// ---- server side -----------------------------------------------------------------
	ghost := SignServer(gca, server.AuthorizedServer{PublicKey: Key("ghost").Pub, Location: "ghost.sim", HttpPort: 1, TcpPort: 2, UdpPort: 3})
	nposts := 10 + m.C.Int("posts", 30)
	for i := 0; i < nposts; i++ {
		if lateRegister && i == nposts/3 {
			for _, n := range nodes {
				if !n.Up {
					continue
				}
				n.DoRegister(gca.Pub, n.Temp)
				n.DoAuthorize(dev.Auth)
				n.DoAuthorize(other.Auth)
			}
		}
		target := nodes[m.C.Int("target", len(nodes))]
		if !target.Up {
			continue
		}
		subject := nodes[m.C.Int("subject", len(nodes))]
		var as server.AuthorizedServer
		switch m.C.Weighted("post", 5, 2, 3, 2, 2, 1, 1) {
		case 0:
			as = entry(subject, false)
		case 1: // same key, changed ports / location
			as = SignServer(gca, server.AuthorizedServer{PublicKey: subject.Key.Pub, Location: "moved.sim", HttpPort: 9, TcpPort: 9, UdpPort: 9})
			m.Probe("c17.srv.changed-ports")
		case 2:
			as = entry(subject, true)
			// A ban names a key: it may leave the address out or name another
			// one (a second ban of a banned server must then change nothing).
			switch m.C.Weighted("srv-ban-form", 3, 1, 1) {
			case 1:
				as = SignServer(gca, server.AuthorizedServer{PublicKey: subject.Key.Pub, Banned: true})
			case 2:
				as = SignServer(gca, server.AuthorizedServer{PublicKey: subject.Key.Pub, Banned: true, Location: "elsewhere.sim", HttpPort: 2, TcpPort: 2, UdpPort: 2})
			}
			m.Probe("c17.srv.ban")
		case 3: // un-ban attempt for whatever is banned
			as = entry(subject, false)
			for _, e := range target.Model.Servers {
				if e.Banned {
					as = SignServer(gca, server.AuthorizedServer{PublicKey: e.PublicKey, Location: e.Location, HttpPort: e.HttpPort, TcpPort: e.TcpPort, UdpPort: e.UdpPort})
					m.Probe("c17.srv.unban-attempt")
				}
			}
		case 4: // bad or foreign signature, or a signed entry altered afterwards
			as = SignServer([]*KeyPair{Key("gcaB"), target.Key, target.Temp, newGCA}[m.C.Int("signer", 4)], server.AuthorizedServer{PublicKey: Key("intruder").Pub, Location: "intruder.sim", HttpPort: 1})
			if m.C.Chance("altered-after-signing", 1, 2) {
				as = entry(subject, false)
				switch m.C.Int("alter", 4) {
				case 0:
					as.Banned = true // a non-banned authorization replayed as a ban
				case 1:
					as.HttpPort++
				case 2:
					as.Location += "x"
				case 3:
					as.PublicKey = Key("intruder").Pub
				}
				m.Probe("c17.srv.altered-after-signing")
			}
		case 5:
			as = ghost
		case 6: // a peer goes down or comes back
			p := nodes[m.C.Int("peer", len(nodes))]
			if p.Up && len(nodes) > 1 && p != nodes[0] {
				p.Stop()
			} else if !p.Up {
				if err := p.Start(); err != nil {
					m.Fail("C17.start", "server-restart", "server does not restart: %v", err)
				}
				p.Model.Servers = nil // not persisted by design
				p.Model.Migrations = map[glow.PublicKey]server.EquipmentMigration{}
			}
			continue
		}
		target.DoAuthorizeServer(as)
		checkLists("post")
	}
	// Monotonicity over the whole phase is implied by the model comparison after
	// every post (the model only ever replaces an entry by a banned one).

	// ---- client side -------------------------------------------------------------------
	for _, n := range nodes {
		if !n.Up {
			if err := n.Start(); err != nil {
				m.Fail("C17.start", "server-restart", "server does not restart: %v", err)
			}
			n.Model.Servers = nil
			n.Model.Migrations = map[glow.PublicKey]server.EquipmentMigration{}
		}
		if !n.Model.Registered {
			n.DoRegister(gca.Pub, n.Temp)
			n.DoAuthorize(dev.Auth)
			n.DoAuthorize(other.Auth)
		}
	}
	w.HTTPPolicy = nil
	// A server of the new GCA, for life after the migration.
	nn := w.AddServer("newsrv0", "temp-new", true)
	nn.Boot()
	nn.DoRegister(newGCA.Pub, nn.Temp)
	newID := uint32(77)
	newAuth := StdAuth(newGCA, newID, dev.Key, 1<<40)
	nn.DoAuthorize(newAuth)
	newEntry := SignServer(newGCA, server.AuthorizedServer{PublicKey: nn.Key.Pub, Location: nn.Loc, HttpPort: nn.HTTP, TcpPort: nn.TCP, UdpPort: nn.UDP})
	nn.DoAuthorizeServer(newEntry)
	// The rogue: a configured server whose key the harness holds, never started.
	rogue := w.AddServer("rogue0", "temp", true)
	clientServers := append(append([]*ServerNode{}, nodes...), rogue)
	cl := w.AddClient("cli0", dev, gca.Pub, clientServers, Slot())
	model := &c17Client{gca: gca.Pub, id: dev.ID, servers: map[glow.PublicKey]client.GCAServer{}}
	for _, s := range clientServers {
		model.servers[s.Key.Pub] = client.GCAServer{Location: s.Loc, HttpPort: s.HTTP, TcpPort: s.TCP, UdpPort: s.UDP}
	}
	if err := cl.Start(); err != nil {
		m.Fail("C17.start", "client", "client does not start: %v", err)
	}
	// Rounds are driven one at a time by the harness: the client's own loop
	// is held at its tick (a stalled thread), so no round of its own cadence
	// overlaps and the reply a successful round accepted is unambiguous.
	holdLoop := func() {
		w.S.Hold(cl.Name + ":send.wake")
		w.S.Hold(cl.Name + ":send.tick")
	}
	holdLoop()
	// Every reply the client reads during a round is recorded.
	var replies [][]byte
	var contacted []*ServerNode
	byLoc := map[string]*ServerNode{}
	for _, s := range append(append([]*ServerNode{}, clientServers...), nn) {
		byLoc[s.Loc] = s
	}
	var rogueReply func() []byte
	w.DialPolicy = func(address string) DialAction {
		host := address[:strings.LastIndex(address, ":")]
		s := byLoc[host]
		contacted = append(contacted, s)
		replies = append(replies, nil)
		idx := len(replies) - 1
		if s == rogue {
			b := rogueReply()
			replies[idx] = b
			return DialAction{Serve: func(c net.Conn) {
				var rq [4]byte
				io.ReadFull(c, rq[:])
				c.Write(b)
				c.Close()
			}}
		}
		return DialAction{Wrap: func(c net.Conn) net.Conn { return &recConn{Conn: c, got: &replies[idx]} }}
	}
	compare := func(site string) {
		st := cl.C.VerifState()
		if st.GCAPubKey != model.gca || st.ShortID != model.id {
			m.Fail("C17.cli-adopt", site, "client identity is (GCA %s, id %d), the signature rules give (GCA %s, id %d)", RoleOf(st.GCAPubKey), st.ShortID, RoleOf(model.gca), model.id)
		}
		if len(st.Servers) != len(model.servers) {
			m.Fail("C17.cli-adopt", site, "client knows %d servers, the signature rules give %d", len(st.Servers), len(model.servers))
		}
		for _, k := range sortedPubKeys(model.servers) {
			e := model.servers[k]
			if got, ok := st.Servers[k]; !ok || got != e {
				m.Fail("C17.cli-adopt", site, "client entry for server %s is %+v (present=%v), the signature rules give %+v", RoleOf(k), got, ok, e)
			}
		}
		// The three files decode to exactly the adopted state.
		fm, err := cl.ServerMapFile()
		if err != nil {
			m.Fail("C17.cli-persist", site, "gcaServers.dat does not decode: %v", err)
		}
		gk, _ := os.ReadFile(filepath.Join(cl.Dir, client.GCAPubKeyFile))
		sid, _ := os.ReadFile(filepath.Join(cl.Dir, client.ShortIDFile))
		if !bytes.Equal(gk, model.gca[:]) || len(sid) != 4 || binary.LittleEndian.Uint32(sid) != model.id {
			m.Fail("C17.cli-persist", site, "gcaPubKey.dat / shortID.dat do not hold the adopted identity")
		}
		if len(fm) != len(model.servers) {
			m.Fail("C17.cli-persist", site, "gcaServers.dat holds %d servers, the adopted list has %d", len(fm), len(model.servers))
		}
		for _, k := range sortedPubKeys(model.servers) {
			e := model.servers[k]
			if fm[k] != e {
				m.Fail("C17.cli-persist", site, "gcaServers.dat entry for %s is %+v, adopted %+v", RoleOf(k), fm[k], e)
			}
		}
	}
	// The file is only rewritten by a successful round: start from the state.
	compareState := func(site string) {
		st := cl.C.VerifState()
		if st.GCAPubKey != model.gca || st.ShortID != model.id || len(st.Servers) != len(model.servers) {
			m.Fail("C17.cli-adopt", site, "client state differs from the signature rules after %s", site)
		}
	}
	compareState("start")

	bansLearned, orders := 0, 0
	rounds := 6 + m.C.Int("rounds", 14)
	for r := 0; r < rounds; r++ {
		// Between rounds the GCA acts: bans, new orders, on the real servers.
		switch m.C.Weighted("gca-act", 3, 2, 2, 1) {
		case 1:
			if model.gca == gca.Pub {
				victim := clientServers[m.C.Int("victim", len(clientServers))]
				// A ban names a key; the GCA may repeat the address, leave it
				// out altogether, or write another one.
				ban := server.AuthorizedServer{PublicKey: victim.Key.Pub, Banned: true, Location: victim.Loc, HttpPort: victim.HTTP, TcpPort: victim.TCP, UdpPort: victim.UDP}
				switch m.C.Weighted("ban-form", 3, 2, 1) {
				case 1:
					ban.Location, ban.HttpPort, ban.TcpPort, ban.UdpPort = "", 0, 0, 0
					m.Probe("c17.cli.key-only-ban")
				case 2:
					ban.Location, ban.TcpPort = "elsewhere.sim", 1
				}
				for _, n := range nodes {
					n.DoAuthorizeServer(SignServer(gca, ban))
				}
			}
		case 2:
			if model.gca == gca.Pub {
				// The new list: the new GCA's server; that server already banned; both;
				// or nothing at all (every one a valid order).
				bannedNew := SignServer(newGCA, server.AuthorizedServer{PublicKey: nn.Key.Pub, Banned: true, Location: nn.Loc, HttpPort: nn.HTTP, TcpPort: nn.TCP, UdpPort: nn.UDP})
				bannedOther := SignServer(newGCA, server.AuthorizedServer{PublicKey: Key("ns-banned").Pub, Banned: true, Location: "nsb.sim", HttpPort: 7, TcpPort: 7, UdpPort: 7})
				// ... or the new GCA's server plus the rogue, re-authorized by the new
				// GCA: the rogue stays reachable after the migration and replays
				// records that only the OLD GCA signed.
				rogueNew := SignServer(newGCA, server.AuthorizedServer{PublicKey: rogue.Key.Pub, Location: rogue.Loc, HttpPort: rogue.HTTP, TcpPort: rogue.TCP, UdpPort: rogue.UDP})
				list := [][]server.AuthorizedServer{{newEntry}, {newEntry, bannedOther}, {bannedNew}, {bannedOther}, {}, {newEntry, rogueNew}}[m.C.Weighted("new-list", 5, 2, 1, 1, 1, 4)]
				if len(list) == 2 && list[1].PublicKey == rogue.Key.Pub {
					m.Probe("c17.cli.rogue-in-new-list")
				}
				if len(list) == 0 || (len(list) == 1 && list[0].Banned) {
					m.Probe("c17.cli.order-without-usable-server")
				}
				if m.C.Chance("order-with-bad-inner-entry", 1, 3) {
					// An order the current GCA really signed whose new-server list holds
					// an entry the NEW GCA did not sign - alone, or hidden behind a genuine
					// entry for the same key: every server must refuse it.
					forged := server.AuthorizedServer{PublicKey: nn.Key.Pub, Banned: true, Location: "evil.sim", HttpPort: 1, TcpPort: 1, UdpPort: 1}
					switch m.C.Int("bad-inner-signer", 3) {
					case 1:
						forged = SignServer(gca, forged)
					case 2:
						forged = SignServer(rogue.Key, forged)
					}
					inner := [][]server.AuthorizedServer{{newEntry, forged}, {forged, newEntry}, {forged}}[m.C.Int("bad-inner-place", 3)]
					nodes[m.C.Int("where", len(nodes))].DoMigrate(SignMigration(gca, server.EquipmentMigration{Equipment: dev.Key.Pub, NewGCA: newGCA.Pub, NewShortID: newID, NewServers: inner}))
					m.Probe("c17.srv.order-with-bad-inner-entry")
				}
				em := SignMigration(gca, server.EquipmentMigration{Equipment: dev.Key.Pub, NewGCA: newGCA.Pub, NewShortID: newID, NewServers: list})
				if m.C.Chance("order-to-same-gca", 1, 8) {
					// Degenerate but valid: an order that names the current GCA as the
					// new one (another id, a server signed by that same GCA). Nothing
					// migrates; the listed server is an ordinary GCA-signed entry.
					extra := SignServer(gca, server.AuthorizedServer{PublicKey: Key("same-gca-extra").Pub, Location: "extra.sim", HttpPort: 4, TcpPort: 4, UdpPort: 4})
					em = SignMigration(gca, server.EquipmentMigration{Equipment: dev.Key.Pub, NewGCA: gca.Pub, NewShortID: newID + 1, NewServers: []server.AuthorizedServer{extra}})
					m.Probe("c17.cli.order-to-same-gca")
				}
				nodes[m.C.Int("where", len(nodes))].DoMigrate(em)
				orders++
			}
		case 3:
			cl.Stop()
			if err := cl.Start(); err != nil {
				m.Fail("C17.start", "client-restart", "client does not restart: %v", err)
			}
			holdLoop()
			m.Probe("c17.cli.restart")
			compare("restart")
		}
		// What the rogue will answer if it is picked in this round.
		rk := m.C.Int("rogue-kind", 8)
		rogueReply = func() []byte {
			var none [4032]bool
			tnow := uint64(time.Now().Unix())
			mk := func(newG glow.PublicKey, id uint32, servers []server.AuthorizedServer, sig [64]byte) []byte {
				return SealSyncReply(EncodeSyncBody(dev.Key.Pub, 0, &none, newG, id, servers, sig), tnow, rogue.Key)
			}
			evil := server.AuthorizedServer{PublicKey: Key("evil").Pub, Location: "evil.sim", HttpPort: 1, TcpPort: 2, UdpPort: 3}
			switch rk {
			case 0: // order for another device, correctly signed by the GCA
				em := SignMigration(gca, server.EquipmentMigration{Equipment: other.Key.Pub, NewGCA: Key("gcaEvil").Pub, NewShortID: 5, NewServers: []server.AuthorizedServer{SignServer(Key("gcaEvil"), evil)}})
				m.Probe("c17.cli.forged-order")
				orders++
				return mk(em.NewGCA, em.NewShortID, em.NewServers, em.Signature)
			case 1: // outer signature by a foreign GCA / by the new GCA itself
				signer := []*KeyPair{Key("gcaB"), Key("gcaEvil")}[m.C.Int("who", 2)]
				em := SignMigration(signer, server.EquipmentMigration{Equipment: dev.Key.Pub, NewGCA: Key("gcaEvil").Pub, NewShortID: 5, NewServers: []server.AuthorizedServer{SignServer(Key("gcaEvil"), evil)}})
				m.Probe("c17.cli.forged-order")
				orders++
				return mk(em.NewGCA, em.NewShortID, em.NewServers, em.Signature)
			case 2: // genuine outer signature is impossible for the rogue; inner servers signed by the old GCA, outer forged
				em := SignMigration(Key("gcaB"), server.EquipmentMigration{Equipment: dev.Key.Pub, NewGCA: Key("gcaEvil").Pub, NewShortID: 5, NewServers: []server.AuthorizedServer{SignServer(gca, evil)}})
				m.Probe("c17.cli.forged-order")
				orders++
				return mk(em.NewGCA, em.NewShortID, em.NewServers, em.Signature)
			case 3: // replays of non-banned entries (un-ban attempt) - all GCA-signed, acceptable
				var list []server.AuthorizedServer
				for _, s := range clientServers {
					list = append(list, SignServer(gca, server.AuthorizedServer{PublicKey: s.Key.Pub, Location: s.Loc, HttpPort: s.HTTP, TcpPort: s.TCP, UdpPort: s.UDP}))
				}
				m.Probe("c17.cli.unban-replay")
				return mk(glow.PublicKey{}, 0, list, [64]byte{})
			case 7: // a genuine entry followed by a forged ban that repeats its key
				s0 := clientServers[m.C.Int("dup-of", len(clientServers))]
				good := SignServer(gca, server.AuthorizedServer{PublicKey: s0.Key.Pub, Location: s0.Loc, HttpPort: s0.HTTP, TcpPort: s0.TCP, UdpPort: s0.UDP})
				forged := server.AuthorizedServer{PublicKey: s0.Key.Pub, Banned: true, Location: "evil.sim", HttpPort: 1, TcpPort: 1, UdpPort: 1}
				if m.C.Chance("rogue-signs", 1, 2) {
					forged = SignServer(rogue.Key, forged)
				}
				m.Probe("c17.cli.forged-dup-entry")
				return mk(glow.PublicKey{}, 0, []server.AuthorizedServer{good, forged}, [64]byte{})
			case 4: // an entry signed by a foreign key among good ones
				return mk(glow.PublicKey{}, 0, []server.AuthorizedServer{SignServer(Key("gcaB"), evil)}, [64]byte{})
			case 5: // changed ports for a known server, GCA-signed: must be ignored
				s := clientServers[0]
				return mk(glow.PublicKey{}, 0, []server.AuthorizedServer{SignServer(gca, server.AuthorizedServer{PublicKey: s.Key.Pub, Location: "moved.sim", HttpPort: 5, TcpPort: 5, UdpPort: 5})}, [64]byte{})
			default: // an order the GCA really signed, whose inner servers are not all signed by the NEW GCA
				bad := SignServer(gca, server.AuthorizedServer{PublicKey: nn.Key.Pub, Location: nn.Loc, HttpPort: nn.HTTP, TcpPort: nn.TCP, UdpPort: nn.UDP})
				inner := []server.AuthorizedServer{bad}
				if m.C.Chance("bad-one-later", 1, 2) {
					// several new servers, only a later one is wrongly signed
					inner = []server.AuthorizedServer{newEntry, SignServer(newGCA, server.AuthorizedServer{PublicKey: Key("ns2").Pub, Location: "ns2.sim", HttpPort: 9}), SignServer(gca, server.AuthorizedServer{PublicKey: Key("ns3").Pub, Location: "ns3.sim", HttpPort: 9})}
				}
				em := SignMigration(gca, server.EquipmentMigration{Equipment: dev.Key.Pub, NewGCA: newGCA.Pub, NewShortID: newID, NewServers: inner})
				m.Probe("c17.cli.forged-order")
				orders++
				return mk(em.NewGCA, em.NewShortID, em.NewServers, em.Signature)
			}
		}
		// afterRound applies the signature rules to what a round read and compares.
		afterRound := func(ok bool) {
			if ok {
				if len(replies) == 0 {
					m.Fail("C17.cli-adopt", "round", "a sync round succeeded without reading any reply")
				}
				last := replies[len(replies)-1]
				from := contacted[len(contacted)-1]
				rep, err := DecodeSyncReply(last)
				if err != nil || rep.Refused {
					m.Fail("C17.cli-adopt", "round", "the client accepted a reply that does not follow the documented layout (%v)", err)
				}
				// An honest server's reply carries its list as it is now (for a device
				// without a pending order): a ban the GCA posted a moment ago included.
				if from != rogue && from != nil && from.Up && rep.NewGCA == (glow.PublicKey{}) {
					if have := from.Snap().Servers; !reflect.DeepEqual(rep.Servers, have) && !(len(rep.Servers) == 0 && len(have) == 0) {
						m.Fail("C17.srv-model", "sync-reply", "the sync reply of %s carries %d server entries that differ from the list that server holds (%d entries): a ban or an addition has not reached the reply", from.Name, len(rep.Servers), len(have))
					}
				}
				if why := c17Valid(rep, from, dev, model.gca); why != "" {
					m.Fail("C17.cli-adopt", why, "the client accepted a sync reply that lacks a required signature: %s", why)
				}
				// Apply the signature rules.
				before := len(model.servers)
				bannedBefore := 0
				for _, e := range model.servers {
					if e.Banned {
						bannedBefore++
					}
				}
				var blank glow.PublicKey
				if rep.NewGCA != blank && rep.NewGCA != model.gca {
					model.gca = rep.NewGCA
					model.id = rep.NewShortID
					model.servers = map[glow.PublicKey]client.GCAServer{}
					m.Probe("c17.cli.migration-adopted")
				}
				for _, s := range rep.Servers {
					if _, exists := model.servers[s.PublicKey]; !exists || s.Banned {
						model.servers[s.PublicKey] = client.GCAServer{Banned: s.Banned, Location: s.Location, HttpPort: s.HttpPort, TcpPort: s.TcpPort, UdpPort: s.UdpPort}
					}
				}
				bannedAfter := 0
				for _, e := range model.servers {
					if e.Banned {
						bannedAfter++
					}
				}
				if bannedAfter > bannedBefore && len(model.servers) >= before {
					m.Probe("c17.cli.ban-learned")
					bansLearned++
				}
				compare("round")
				nb := 0
				for _, e := range model.servers {
					if e.Banned {
						nb++
					}
				}
				m.NoteState(RoleOf(model.gca), model.id, len(model.servers), nb)
			} else {
				// A round that fails adopts nothing and persists nothing.
				compare("failed-round")
				// After a migration the device must be able to talk to the servers
				// of the GCA it moved to (the only one here is honest and up).
				if model.gca == newGCA.Pub && len(model.servers) == 1 && !model.servers[nn.Key.Pub].Banned && nn.Up {
					if _, only := model.servers[nn.Key.Pub]; only {
						m.Fail("C17.cli-adopt", "post-migration-sync", "after adopting the migration the client cannot complete a sync round with the (honest, reachable) server of its new GCA")
					}
				}
			}
		}
		runRound := func(name string) bool {
			replies, contacted = nil, nil
			var ok bool
			t := w.Do(name, func() { ok, _ = cl.C.VerifSyncRound(Slot()) })
			if t.Panic != nil {
				m.Fail("C17.panic", "sync-round", "sync round panicked: %v\n%s", t.Panic, firstRepoFrames(t.Stack))
			}
			w.PumpUDP()
			return ok
		}
		if model.gca == gca.Pub && m.C.Chance("overlapping-rounds", 1, 5) {
			// Two rounds of one client overlap (its loop starts every round in a
			// goroutine of its own): the older one has merged its reply and is
			// parked right behind its critical section, the GCA bans a server, a
			// younger round learns of the ban and finishes, the older one goes on.
			// What the client knows and what its files hold is then the result of
			// both replies, in that order.
			site := cl.Name + ":csync.postmerge"
			w.S.EnableSites("csync.postmerge")
			w.S.Hold(site)
			replies, contacted = nil, nil
			var okA bool
			tA := w.Go("sync-round-older", func() { okA, _ = cl.C.VerifSyncRound(Slot()) })
			parkedBehindMerge := func() bool {
				for _, p := range w.S.Parked(true) {
					if p.Name == tA.Name && p.Site == "csync.postmerge" {
						return true
					}
				}
				return false
			}
			w.Settle()
			for k := 0; k < 400 && !tA.Done() && !parkedBehindMerge(); k++ {
				w.Advance(50 * time.Millisecond)
			}
			if !parkedBehindMerge() {
				var ps []string
				for _, p := range w.S.Parked(true) {
					ps = append(ps, p.Name+"@"+p.Node+":"+p.Site)
				}
				w.Logf("overlapping rounds: older round not parked behind its merge (done=%v, parked: %v)", tA.Done(), ps)
				// The older round failed (or is stuck, which Finish reports).
				w.S.Unhold(site)
				w.S.DisableSites("csync.postmerge")
				w.Finish(tA)
				if tA.Panic != nil {
					m.Fail("C17.panic", "sync-round", "sync round panicked: %v\n%s", tA.Panic, firstRepoFrames(tA.Stack))
				}
				w.PumpUDP()
				afterRound(okA)
				continue
			}
			afterRound(true) // its reply is merged and persisted
			w.S.Hold(tA.Name)
			w.S.Unhold(site)
			victim := clientServers[m.C.Int("victim", len(clientServers))]
			ban := SignServer(gca, server.AuthorizedServer{PublicKey: victim.Key.Pub, Banned: true, Location: victim.Loc, HttpPort: victim.HTTP, TcpPort: victim.TCP, UdpPort: victim.UDP})
			for _, n := range nodes {
				n.DoAuthorizeServer(ban)
			}
			afterRound(runRound("sync-round-younger"))
			w.S.Unhold(tA.Name)
			w.Finish(tA)
			if tA.Panic != nil {
				m.Fail("C17.panic", "sync-round", "sync round panicked: %v\n%s", tA.Panic, firstRepoFrames(tA.Stack))
			}
			w.PumpUDP()
			if !okA {
				m.Fail("C17.cli-adopt", "overlapping-rounds", "a round that had accepted and merged its reply ended as a failed round")
			}
			w.S.DisableSites("csync.postmerge")
			compare("after-overlapping-rounds")
			m.Probe("c17.cli.overlapping-rounds")
			continue
		}
		afterRound(runRound("sync-round"))
	}
	if bansLearned > 0 && orders > 0 {
		m.Probe("nontrivial")
	}
	// A final restart resumes with the same identity and list.
	cl.Stop()
	if err := cl.Start(); err != nil {
		m.Fail("C17.cli-persist", "final-restart", "client does not restart on what it persisted: %v", err)
	}
	st := cl.C.VerifState()
	if st.GCAPubKey != model.gca || st.ShortID != model.id {
		m.Fail("C17.cli-persist", "final-restart", "after a restart the client is (GCA %s, id %d), adopted was (GCA %s, id %d)", RoleOf(st.GCAPubKey), st.ShortID, RoleOf(model.gca), model.id)
	}
}

// c17Valid is the independent statement of what makes a reply acceptable; it
// returns "" or the name of the missing requirement.
func c17Valid(rep *SyncReply, from *ServerNode, dev *Device, currentGCA glow.PublicKey) string {
	if from == nil || !VerifySig(from.Key.Pub, rep.Signed, rep.Sig) {
		return "server-signature"
	}
	now := time.Now().Unix()
	if int64(rep.Time) > now+86400 || int64(rep.Time) < now-86400 {
		return "freshness"
	}
	if rep.Key != dev.Key.Pub {
		return "device-key-binding"
	}
	var blank glow.PublicKey
	signer := currentGCA
	if rep.NewGCA != blank {
		if !VerifySig(currentGCA, append([]byte("EquipmentMigration"), rep.MigBody...), rep.GCASig) {
			return "migration-order-not-signed-by-current-gca"
		}
		signer = rep.NewGCA
	}
	for _, s := range rep.Servers {
		if !VerifySig(signer, ServerSigningBytes(s), s.GCAAuthorization) {
			return "server-entry-not-signed-by-the-required-gca"
		}
	}
	return ""
}
