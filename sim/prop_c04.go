//go:build test

package sim

// C04 - restart preserves every accepted fact. Histories of registrations,
// authorizations (incl. conflicts that ban), reports (incl. banned slots),
// rotations; a graceful restart is inserted after seeded prefixes, sometimes
// two or three times in a row, with the clock requiring zero, one or several
// catch-up rotations. Oracle: start succeeds; snapshot after == snapshot
// before on the fields the property lists; the reference model agrees; a
// repeated restart changes nothing.

import "time"

func init() {
	Register(&Property{
		ID:             "C04",
		Run:            runC04,
		Rule:           "runs = generated histories (registration, authorizations incl. conflicts, reports incl. equivocation/over-capacity, clock advances, real rotations) with a graceful restart after seeded prefixes (quick: p=1/4 per op; thorough: also after every op of short histories), 1-3 restarts in a row, clocks needing 0/1/several catch-up rotations; non-trivial = at least one restart happened with accepted state on disk; distinct = distinct decision signatures",
		Real:           []string{"NewGCAServer load path (keys, GCA key, equipment with ban replay, history, reports)", "Close()", "all handlers used by the history", "rotation loop incl. start-up catch-up", "real files on tmpfs"},
		Stub:           []string{"socket listeners"},
		Assumptions:    []string{"authorized-server list, migration orders and live impact rates are not persisted by design and are excluded"},
		RequiredProbes: []string{"hist.restart", "hist.conflict", "hist.rotation", "hist.catchup-multi", "c04.restart-with-ban", "c04.restart-unregistered"},
		RequiredSites:  []string{"migrate.before-shift", "auth.after-write", "report.after-write", "gcakey.after-write"},
	})
}

func runC04(m *Sim) {
	w := NewWorld(m)
	defer w.Shutdown()
	h := NewHist(w, "srv0", "C04")
	SetSlot(uint32(m.C.Int("now0", 3000)))
	h.Boot()
	restartEvery := m.Tier == "thorough" && m.C.Chance("restart-every", 1, 3)
	restart := func() {
		if len(h.N.Model.Bans) > 0 {
			m.Probe("c04.restart-with-ban")
		}
		if !h.N.Model.Registered {
			m.Probe("c04.restart-unregistered")
		}
		if m.C.Chance("jump-before-restart", 1, 4) {
			SetSlot(Slot() + uint32(m.C.Int("jump", 9000)))
		}
		h.OpRestart(1 + m.C.Weighted("restarts", 6, 2, 1))
		m.Probe("nontrivial")
	}
	if m.C.Chance("restart-before-register", 1, 6) {
		restart()
	}
	h.Setup(1 + m.C.Int("devices", 3))
	h.Check("setup")
	nops := 5 + m.C.Int("ops", 36)
	if restartEvery && nops > 14 {
		nops = 14
	}
	for i := 0; i < nops; i++ {
		switch m.C.Weighted("op", 8, 3, 2, 2) {
		case 0:
			h.OpReport()
		case 1:
			h.OpAuthorize()
		case 2:
			h.OpClock()
		case 3:
			h.OpTime(time.Duration(20+m.C.Int("ms", 200)) * time.Millisecond)
		}
		h.Check("op")
		if restartEvery || m.C.Chance("restart", 1, 5) {
			restart()
		}
	}
	restart()
	c02Surfaces(w, h.N, h.live())
}
