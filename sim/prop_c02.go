//go:build test

package sim

// C02 - one report per device-timeslot; equivocation or over-capacity bans the
// slot. World: one real server, 2-3 devices of different capacities. History:
// valid reports over a small set of slots with values at the capacity
// boundary, negative-encoded values, re-signed variants, replays, duplicated
// and reordered by the UDP fabric. Oracle: per (device, slot) reference
// machine, compared on the whole snapshot after every delivery, through the
// public surfaces at the end, and across a second delivery order.

import (
	"fmt"
)

func init() {
	Register(&Property{
		ID:             "C02",
		Run:            runC02,
		Rule:           "runs = seeded histories of valid reports (replays, re-signed variants, boundary values) through a duplicating/reordering fabric, a restart 0-1000 slots later without rotation, plus (thorough) exhaustive sequences up to length 4 over 2 devices x 2 slots x 3 values; non-trivial = at least one equivocation, over-capacity, replay or fabric fault happened; distinct = distinct decision signatures",
		Real:           []string{"glow codecs and secp256k1", "server report handler (parse, verify, window checks, integrate, persist)", "server HTTP handlers (stats, recent reports)", "TCP sync handler", "background loops", "real files on tmpfs"},
		Stub:           []string{"UDP socket read loop (modelled: leading 80 bytes of datagrams >= 80 bytes)", "HTTP/TCP accept loops"},
		Assumptions:    []string{"fresh ids always carry fresh keys"},
		RequiredProbes: []string{"c02.equivocation", "c02.over-capacity", "c02.replay", "c02.resigned", "c02.negative", "c02.late-restart", "c02.mid-run-reads", "c02.sentinel-reading"},
		RequiredSites:  []string{"report.after-write", "report.before-write"},
	})
}

// The last four are at and above 2^64/135, where capacity*135 no longer fits
// 64 bits (a GCA writing "unlimited" as a huge number).
var c02Caps = []uint64{0, 1, 7, 1000, 1 << 40, 1<<56 - 1, (1<<64-1)/135 + 1, 1 << 57, 1 << 63, 1<<64 - 1}

func c02Limit(capacity uint64) uint64 {
	hi, lo := mul64(capacity, 135)
	q, _ := div128(hi, lo, 100)
	if q.hi != 0 {
		return 1<<64 - 1
	}
	return q.lo
}

func runC02(m *Sim) {
	w := NewWorld(m)
	defer w.Shutdown()
	nd := 2 + m.C.Int("devices", 2)
	caps := make([]uint64, nd)
	for i := range caps {
		caps[i] = c02Caps[m.C.Int("cap", len(c02Caps))]
	}
	SetSlot(uint32(500 + m.C.Int("now", 2500)))
	n, _, devs := w.StdSetup("srv0", caps)
	n.Check("C02.machine", "setup")

	if m.Tier == "thorough" && m.C.Chance("mode.exhaustive", 1, 2) {
		c02Exhaustive(w, n, devs)
		return
	}

	now := Slot()
	slots := []uint32{now, now - 1, now + 432, now - 432}
	var sent [][]byte
	values := func(d *Device) []uint64 {
		lim := c02Limit(d.Auth.Capacity)
		return []uint64{5, 6, lim, lim + 1, 2, 3, 1<<63 - 2, 1<<63 - 1, 1 << 63, 1<<64 - 1, lim + 2}
	}
	w.UDPPolicy = func(d *Datagram) UDPAction {
		return UDPAction(m.C.Weighted("udp", 6, 1, 2, 1))
	}
	nops := 10 + m.C.Int("ops", 60)
	for i := 0; i < nops; i++ {
		var b []byte
		if len(sent) > 0 && m.C.Chance("replay", 1, 4) {
			b = sent[m.C.Int("which", len(sent))]
			m.Probe("c02.replay")
		} else {
			d := devs[m.C.Int("dev", len(devs))]
			slot := slots[m.C.Int("slot", len(slots))]
			vals := values(d)
			v := vals[m.C.Int("value", len(vals))]
			if v == 0 || v == 1 {
				v = 2
			}
			if m.C.Chance("sentinel-reading", 1, 10) {
				// Genuinely signed reports whose reading is one of the two reserved
				// values (0 = empty, 1 = banned): refused, now and after a restart.
				v = uint64(m.C.Int("sentinel", 2))
				m.Probe("c02.sentinel-reading")
			}
			r := SignedReport(d.Key, d.ID, slot, v)
			if k := m.C.Int("nonce", 3); k > 0 {
				r.Sig = SignWithNonce(d.Key, ReportSigningBytes(d.ID, slot, v), uint64(k))
				m.Probe("c02.resigned")
			}
			if int64(v) < 0 {
				m.Probe("c02.negative")
			}
			b = r.Encode()
			sent = append(sent, b)
		}
		if m.C.Chance("read-surfaces", 1, 12) {
			// Read-only requests in the middle of the traffic.
			c02Pump(w, n)
			c02Surfaces(w, n, devs)
			m.Probe("c02.mid-run-reads")
		}
		// Through the fabric: queue, then pump with the seeded policy.
		w.sendUDP(b, n.Loc+":8200")
		if m.C.Chance("pump", 2, 3) {
			c02Pump(w, n)
		}
	}
	w.UDPPolicy = func(d *Datagram) UDPAction { return UDPDeliver }
	c02Pump(w, n)
	c02Surfaces(w, n, devs)

	// Order independence, directly: the datagrams that were delivered, in a
	// different order, on a fresh server must give the same published values.
	n2, _, _ := w.StdSetup("srv1", caps)
	perm := m.C.Perm("order", len(w.delivered))
	for _, i := range perm {
		n2.DoDatagram(w.delivered[i])
	}
	n2.Check("C02.machine", "second-order")
	for _, d := range devs {
		for _, slot := range slots {
			a := n.Model.Devices[d.ID].Slots[slot].Value()
			b := n2.Model.Devices[d.ID].Slots[slot].Value()
			if a != b {
				m.Fail("C02.order", "permuted", "device %d slot %d: value %d in arrival order, %d in permuted order", d.ID, slot, a, b)
			}
		}
	}
	s1, s2 := n.Snap(), n2.Snap()
	for _, d := range devs {
		if fmt.Sprint(slotValues(s1.Reports[d.ID])) != fmt.Sprint(slotValues(s2.Reports[d.ID])) {
			m.Fail("C02.order", "permuted", "device %d: published values differ between two delivery orders of the same multiset", d.ID)
		}
	}
	// The published values are a function of the reports received - also after
	// days have passed and the server was restarted (no rotation in between).
	if jump := uint32([]int{0, 433, 600, 1000}[m.C.Int("late-restart-jump", 4)]); m.C.Chance("late-restart", 1, 3) && Slot()+jump <= 3100 {
		SetSlot(Slot() + jump)
		n.Stop()
		if err := n.Start(); err != nil {
			m.Fail("C02.start", "late-restart", "server does not restart: %v", err)
		}
		s3 := n.Snap()
		if s3.Offset != s1.Offset {
			panic("harness: C02 late restart rotated the window")
		}
		for _, d := range devs {
			if a, b := fmt.Sprint(slotValues(s1.Reports[d.ID])), fmt.Sprint(slotValues(s3.Reports[d.ID])); a != b {
				m.Fail("C02.machine", "late-restart", "device %d: published values changed over a restart %d slots later: %s became %s", d.ID, jump, a, b)
			}
		}
		m.Probe("c02.late-restart")
	}
}

func slotValues(slots []serverSlot) map[uint32]uint64 {
	out := map[uint32]uint64{}
	for _, s := range slots {
		out[s.Index] = s.Report.PowerOutput
	}
	return out
}

// c02Pump delivers the queued datagrams, checking the machine after each one.
func c02Pump(w *World, n *ServerNode) {
	w.deliverHook = func(d *Datagram) {
		changed, why := n.Model.Deliver(d.Data, Slot())
		w.Sig = append(w.Sig, "d:"+why)
		w.delivered = append(w.delivered, d.Data)
		switch why {
		case "equivocation":
			w.Probe("c02.equivocation")
			w.Probe("nontrivial")
		case "over-capacity":
			w.Probe("c02.over-capacity")
			w.Probe("nontrivial")
		case "banned-slot", "replay":
			w.Probe("nontrivial")
		}
		_ = changed
		n.Check("C02.machine", why)
	}
	w.PumpUDP()
	w.deliverHook = nil
}

// c02Surfaces checks the public surfaces against the model.
func c02Surfaces(w *World, n *ServerNode, devs []*Device) {
	for half := 0; half < 2; half++ {
		ads, st := n.GetStats(n.Model.Offset+uint32(half)*2016, false)
		if st != 200 {
			w.Fail(w.Prop+".surface", "stats", "live week %d (offset %d) not served: %d %s", half, n.Model.Offset+uint32(half)*2016, st, n.LastBody)
		}
		if err := CompareWeek(n.Model.LiveWeek(half), ads, n.Key.Pub); err != nil {
			w.Fail(w.Prop+".surface", "stats", "%v", err)
		}
	}
	for _, d := range devs {
		// Reading is not writing: a recent-reports request leaves every value
		// as it is (checked by the comparison with the model right after).
		n.GetRecentStatus(d.Key.Pub)
		n.Check(w.Prop+".machine", "after-recent-reports-read")
		bits := n.SyncBits(d.ID)
		for i := 0; i < 4032; i++ {
			want := n.Model.Devices[d.ID].Slots[n.Model.Offset+uint32(i)] != nil
			if bits[i] != want {
				w.Fail(w.Prop+".surface", "sync-bitfield", "device %d slot index %d: bit %v, model has record %v", d.ID, i, bits[i], want)
			}
		}
	}
}

// c02Exhaustive enumerates every sequence up to length 4 over the alphabet
// 2 devices x 2 slots x 3 values, with fresh slots per sequence.
func c02Exhaustive(w *World, n *ServerNode, devs []*Device) {
	const alpha = 12
	total := alpha + alpha*alpha + alpha*alpha*alpha + alpha*alpha*alpha*alpha
	per := 300
	block := w.C.Int("block", (total+per-1)/per)
	start := block * per
	w.Probe("nontrivial")

	now := Slot()
	base := now - 430
	for k := 0; k < per && start+k < total; k++ {
		idx := start + k
		length := 1
		span := alpha
		for idx >= span {
			idx -= span
			span *= alpha
			length++
		}
		if base+2 > now+430 {
			break
		}
		for j := 0; j < length; j++ {
			sym := idx % alpha
			idx /= alpha
			d := devs[sym%2]
			slot := base + uint32((sym/2)%2)
			lim := c02Limit(d.Auth.Capacity)
			v := []uint64{2, 3, lim + 1}[sym/4]
			if v < 2 {
				v = 2
			}
			r := SignedReport(d.Key, d.ID, slot, v)
			_, why := n.DoDatagram(r.Encode())
			switch why {
			case "equivocation":
				w.Probe("c02.equivocation")
			case "over-capacity":
				w.Probe("c02.over-capacity")
			case "replay":
				w.Probe("c02.replay")
			}
			n.Check("C02.machine", "exhaustive:"+why)
		}
		base += 2
	}
	w.Probe("c02.exhaustive-block")
	c02Surfaces(w, n, devs)
	// Counted only when the block ran to its end.
	w.Probe(fmt.Sprintf("c02.block.%02d", block))
}

// checkSurfaces compares the public surfaces (live statistics, sync bitfield)
// of a node with its model.
func checkSurfaces(w *World, n *ServerNode, devs []*Device) { c02Surfaces(w, n, devs) }
