//go:build test

package sim

import "testing"

// TestRace is the entry point of the auxiliary race-detector mode.
func TestRace(t *testing.T) { RaceMain(t) }
