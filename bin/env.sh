# source this: toolchain and module settings for the sealed sandbox
export GOFLAGS=-mod=mod GOPROXY=off GOSUMDB=off GOTOOLCHAIN=local
export PATH=/opt/veriftools/go1.26.8/bin:$PATH
